----------------------------- MODULE Concurrent -----------------------------
(***************************************************************************)
(* Mutex-enabled Stack under concurrent mutators (property C10), at        *)
(* lock-acquisition granularity.                                           *)
(*                                                                         *)
(* Each goroutine g runs a program prog[g] (a sequence of mutator calls)   *)
(* on one shared stack.  A call consists of at most two segments:          *)
(*   Pre  : the unlocked wrapper guard.  Pop and Reverse return at once    *)
(*          when they see an empty stack, Insert / Replace when the value  *)
(*          is nil; otherwise the goroutine arrives at the lock ("want").  *)
(*   Crit : the critical section -- the whole effect of the call, applied  *)
(*          atomically with ListOps!Step (so a guard that was true at Pre  *)
(*          is re-validated under the lock).                               *)
(* A schedule is the sequence of goroutine ids in which segments run.  TLC *)
(* enumerates EVERY schedule of every program, proves that each outcome is *)
(* the outcome of some sequential execution consistent with program order  *)
(* (Linearizable), that capacity is respected and that the configuration   *)
(* is never handed out as an element, and emits (init, program, schedule,  *)
(* predicted returns and final content) for execution on real goroutines   *)
(* through the verif lock hook.                                            *)
(***************************************************************************)
EXTENDS ListOps, Json, IOUtils

CONSTANTS G,          \* number of goroutines
          OpsPer,     \* calls per goroutine
          Lens,       \* initial lengths
          Caps,       \* initial capacities
          FAMILY,     \* which call alphabet
          OUT

Gs == 1..G

CallsA ==     \* the content mutators of the statement
  CASE FAMILY = "core" -> {[op |-> "Push", xs |-> <<"a">>], [op |-> "Pop"], [op |-> "Insert", x |-> "b", i |-> 0],
                           [op |-> "Remove", i |-> 0], [op |-> "Replace", x |-> "c", i |-> 0], [op |-> "Swap", i |-> 0, j |-> 1],
                           [op |-> "Reverse"], [op |-> "Reset"]}
    [] FAMILY = "poppush" -> {[op |-> "Push", xs |-> <<"a", "b">>], [op |-> "Pop"], [op |-> "Remove", i |-> 1], [op |-> "Insert", x |-> "b", i |-> 1]}
    [] FAMILY = "mini3" -> {[op |-> "Pop"], [op |-> "Push", xs |-> <<"a">>], [op |-> "Remove", i |-> 0], [op |-> "Insert", x |-> "b", i |-> 0]}
    \* "policy": a push policy (approving a and b) is installed; Push consults it INSIDE its critical section
    [] FAMILY = "policy" -> {[op |-> "Push", xs |-> <<"a">>], [op |-> "Push", xs |-> <<"a", "b">>], [op |-> "Pop"], [op |-> "Insert", x |-> "b", i |-> 0],
                             [op |-> "Push", xs |-> <<"a", "c">>],       \* c is REJECTED: the error is recorded inside the same critical section
                             [op |-> "SetMutex", dep |-> FALSE]}         \* asked again while in use: the mutex in place stays (no lock is taken)
    \* "nnest": the no-nesting option is switched (under the lock) while Pushes of Stack values are in flight
    [] FAMILY = "nnest" -> {[op |-> "Push", xs |-> <<"S">>], [op |-> "Push", xs |-> <<"a", "S">>], [op |-> "Pop"],
                            [op |-> "SetOpt", f |-> "nnest", m |-> "on", dep |-> FALSE], [op |-> "SetOpt", f |-> "nnest", m |-> "off", dep |-> FALSE]}
    [] OTHER -> {[op |-> "Pop"], [op |-> "Push", xs |-> <<"a">>]}

InitElems(n) == CASE n = 0 -> <<>> [] n = 1 -> <<"p">> [] n = 2 -> <<"p", "q">> [] OTHER -> <<"p", "q", "r">>

VARIABLES st, init, prog, pc, ip, rets, sched

vars == <<st, init, prog, pc, ip, rets, sched>>

Init == /\ \E n \in Lens, c \in Caps, f \in BOOLEAN :
             st = [NewState("AND", c) EXCEPT !.mtx = TRUE, !.e = InitElems(n), !.fifo = f,
                                             !.haspol = (FAMILY = "policy"), !.acc = IF FAMILY = "policy" THEN {"a", "b"} ELSE {}]
             /\ (c = 0 \/ n <= c)
        /\ init = st
        /\ prog \in [Gs -> [1..OpsPer -> CallsA]]
        /\ pc = [g \in Gs |-> "start"] /\ ip = [g \in Gs |-> 1]
        /\ rets = [g \in Gs |-> <<>>] /\ sched = <<>>

Cur(g) == prog[g][ip[g]]

\* the unlocked guard of the public wrapper: does the call go on to the lock?
ReachesLock(s, c) ==
  CASE c.op \in {"Pop", "Reverse"}    -> Len(s.e) > 0
    [] c.op \in {"Insert", "Replace"} -> c.x # Nil
    [] c.op = "SetMutex" -> FALSE
    [] OTHER -> TRUE

Finish(g, r) == /\ rets' = [rets EXCEPT ![g] = Append(@, r)]
                /\ IF ip[g] = OpsPer THEN pc' = [pc EXCEPT ![g] = "done"] /\ ip' = ip
                   ELSE pc' = [pc EXCEPT ![g] = "start"] /\ ip' = [ip EXCEPT ![g] = @ + 1]

Pre(g) == /\ pc[g] = "start"
          /\ sched' = Append(sched, g)
          /\ IF ReachesLock(st, Cur(g))
             THEN pc' = [pc EXCEPT ![g] = "want"] /\ UNCHANGED <<st, ip, rets>>
             ELSE Finish(g, ZeroRet(Cur(g))) /\ UNCHANGED st
          /\ UNCHANGED <<init, prog>>

Crit(g) == /\ pc[g] = "want"
           /\ sched' = Append(sched, g)
           /\ LET r == Step(st, Cur(g)) IN st' = r.s /\ Finish(g, r.ret)
           /\ UNCHANGED <<init, prog>>

Next == \E g \in Gs : Pre(g) \/ Crit(g)
Spec == Init /\ [][Next]_vars

Terminal == \A g \in Gs : pc[g] = "done"

-----------------------------------------------------------------------------
\* a sequential execution of the calls in some order consistent with program order
RECURSIVE SeqExec(_, _, _)
SeqExec(s, done, want) ==       \* done[g] = calls of g already executed; want = the observed returns
  IF \A g \in Gs : done[g] = OpsPer THEN s.e = st.e
  ELSE \E g \in {x \in Gs : done[x] < OpsPer} :
         LET r == Step(s, prog[g][done[g] + 1]) IN
         r.ret = want[g][done[g] + 1] /\ SeqExec(r.s, [done EXCEPT ![g] = @ + 1], want)

Linearizable == Terminal => SeqExec(init, [g \in Gs |-> 0], rets)
CapRespected == st.cap > 0 => Len(st.e) <= st.cap
\* every value handed out or stored is a user value: the configuration is never an element
UserVals == {"p", "q", "r", "a", "b", "c", "S", Nil, "true", "false"}
OnlyUserValues == /\ \A n \in 1..Len(st.e) : st.e[n] \in UserVals
                  /\ \A g \in Gs : \A n \in 1..Len(rets[g]) : \A m \in 1..Len(rets[g][n]) : rets[g][n][m] \in UserVals

RECURSIVE CcSetToSeq(_)
CcSetToSeq(S) == IF S = {} THEN <<>> ELSE LET x == CHOOSE y \in S : TRUE IN <<x>> \o CcSetToSeq(S \ {x})
JS(s) == [s EXCEPT !.opts = CcSetToSeq(s.opts), !.acc = CcSetToSeq(s.acc), !.lvl = CcSetToSeq(s.lvl)]

Emit == (OUT = "" \/ ~Terminal) \/
        Serialize(ToJson([init |-> JS(init), prog |-> prog, sched |-> sched,
                          pred |-> [rets |-> rets, final |-> st.e]]) \o "\n",
                  OUT, [format |-> "TXT", charset |-> "UTF-8", openOptions |-> <<"WRITE", "CREATE", "APPEND">>]).exitValue = 0
=============================================================================
