------------------------------ MODULE Stackage ------------------------------
(***************************************************************************)
(* The go-stackage Stack as a state machine: one handle (st) and, for      *)
(* Transfer, a second one (dst).  Every public call is one action; the     *)
(* action is a thin wrapper around ListOps!Step.  A distinct TLC state is  *)
(* one abstract state; the per-transition properties are evaluated, and    *)
(* the transition table is emitted, by invariants that quantify over every *)
(* call enabled in the current state (so nothing is multiplied by history  *)
(* variables: 24 M generated states became 0.4 M for the same table).      *)
(***************************************************************************)
EXTENDS ListOps, Json, IOUtils

CONSTANTS
  Vals,        \* element values offered to Push / Insert / Replace
  MaxLen,      \* bound on Len(st.e)
  Caps,        \* capacities of initial configurations (0 = none)
  Kinds,       \* stack kinds of initial configurations
  InitOpts,    \* set of initial option sets
  InitMtx,     \* subset of BOOLEAN: is the mutex enabled in initial configurations
  Fams,        \* which call families are enabled
  OptFlags,    \* flags switched by the "opts" family
  PushLens,    \* lengths of Push batches
  DstCaps,     \* capacities of the Transfer destination
  DstOps,      \* calls issued on the second handle: subset of {"push","pop","ronly","nnest","policy"}
  IdxMode,     \* "existing": Remove/Replace/Swap only address existing positions (C01);
               \* "all": every index incl. out-of-range and MinInt/MaxInt stand-ins (C08)
  OUT          \* file the transition table is written to ("" = do not emit)

VARIABLES st, dst

vars == <<st, dst>>

BigNeg == -1000000     \* stands for math.MinInt in the harness
BigPos == 1000000      \* stands for math.MaxInt

AllIdx(s) == (-(Len(s.e) + 1))..(Len(s.e) + 1) \cup (IF IdxMode = "all" THEN {BigNeg, BigPos} ELSE {})
\* indices for calls that translate through Lookup (Remove, Index)
LkIdx(s)  == IF IdxMode = "all" THEN AllIdx(s) ELSE {i \in AllIdx(s) : Lookup(s.e, s.opts, i).pos # 0}
\* indices for calls that take raw positions (Replace, Swap)
RawIdx(s) == IF IdxMode = "all" THEN AllIdx(s) ELSE 0..(Len(s.e) - 1)

Seqs(S, n) == [1..n -> S]
Batches == UNION {Seqs(Vals, n) : n \in PushLens}

RECURSIVE SetToSeq(_)
SetToSeq(S) == IF S = {} THEN <<>> ELSE LET x == CHOOSE y \in S : TRUE IN <<x>> \o SetToSeq(S \ {x})

ListCalls(s) ==
       {[op |-> "Push", xs |-> xs] : xs \in Batches}
  \cup {[op |-> "Pop"], [op |-> "Reverse"], [op |-> "Reset"]}
  \cup {[op |-> "Insert", x |-> x, i |-> i] : x \in Vals, i \in AllIdx(s)}
  \cup {[op |-> "Remove", i |-> i] : i \in LkIdx(s)}
  \cup {[op |-> "Replace", x |-> x, i |-> i] : x \in Vals, i \in RawIdx(s)}
  \cup {[op |-> "Swap", i |-> i, j |-> j] : i \in RawIdx(s), j \in RawIdx(s)}
  \cup {[op |-> "SetFIFO", b |-> b] : b \in BOOLEAN}

\* dep = TRUE: the call is issued through the deprecated alias method (Paren, Fold, NoPadding, ...);
\* the specification makes no difference between the two spellings
OptCalls == {[op |-> "SetOpt", f |-> f, m |-> m, dep |-> d] : f \in OptFlags, m \in {"on", "off", "toggle"}, d \in BOOLEAN}

PolCalls == {[op |-> "SetPushPolicy", on |-> TRUE, acc |-> SetToSeq(A)] : A \in SUBSET Vals}
       \cup {[op |-> "SetPushPolicy", on |-> FALSE, acc |-> <<>>]}

LifeCalls == {[op |-> "Free"], [op |-> "SetErr", on |-> TRUE], [op |-> "SetErr", on |-> FALSE],
              [op |-> "SetMutex", dep |-> FALSE], [op |-> "SetMutex", dep |-> TRUE]}

DefragCalls(s) ==
  \* Defrag is specified only while every nil run is shorter than the limit
  {[op |-> "Defrag", m |-> m] : m \in {x \in {0, 1, 2, 3} : MaxNilRun(s.e, 0, 0) < DefragLimit(x)}}

AuxCalls ==
       {[op |-> "SetAuxiliary", form |-> f] : f \in {"none", "nil", "map", "map0"}}
  \cup {[op |-> "SetLogger", arg |-> a] : a \in {"stdout", "STDOUT", "int1", "stderr", "StdErr", "int2", "custom", "off", "discard", "int0", "nil", "junk", "int7"}}

SettingCalls(s) ==
       {[op |-> "SetID", v |-> v] : v \in {"", "x", "_random", "_RANDOM", "_addr", "_Xy"}}      \* _Xy: only the two reserved words are special, everything else is kept verbatim
  \cup {[op |-> "SetCategory", v |-> v] : v \in {"", "k"}}
  \cup {[op |-> "SetDelimiter", form |-> "str", v |-> v] : v \in {"", ","}}
  \cup {[op |-> "SetDelimiter", form |-> "rune", v |-> ";"], [op |-> "SetDelimiter", form |-> "nil", v |-> ""],
        [op |-> "SetDelimiter", form |-> "int", v |-> ""]}
  \cup {[op |-> "SetSymbol", parts |-> p, dep |-> d] : d \in BOOLEAN,
          p \in {<<>>, <<[form |-> "str", v |-> "&"]>>, <<[form |-> "str", v |-> "Xo"]>>,      \* a symbol with cased letters: never folded <<[form |-> "str", v |-> "|"], [form |-> "rune", v |-> "|"]>>,
                 <<[form |-> "int", v |-> ""], [form |-> "str", v |-> "&"]>>}}
  \cup {[op |-> "SetEncap", pairs |-> p, dep |-> d] : d \in BOOLEAN,
          p \in {<<>>, <<<<"\"">>>>, <<<<"<", ">">>>>, <<<<"<", ">">>, <<"\"">>>>, <<<<"\"", ">">>>>,
                 <<<<"(", ")">>>>}}

GrowCalls == {[op |-> "Push", xs |-> xs] : xs \in Batches} \cup {[op |-> "Pop"], [op |-> "SetFIFO", b |-> TRUE]}

MarshalCalls == {[op |-> "Marshal", kind |-> k, xs |-> xs] : k \in {"AND", "LIST"}, xs \in {<<>>, <<"a">>, <<"a", "nil">>}}

\* log-level arguments: names / constants (one bit), raw integers (several bits), the two shortcuts
LvArg(bits) == [bits |-> bits, none |-> FALSE, all |-> FALSE, form |-> IF Len(bits) = 1 THEN "name" ELSE "int"]
LvArgs == {LvArg(<<1>>), LvArg(<<4>>), [LvArg(<<3>>) EXCEPT !.form = "const"], LvArg(<<3, 4, 6>>), [LvArg(<<16>>) EXCEPT !.form = "const"],
           [bits |-> <<>>, none |-> TRUE, all |-> FALSE, form |-> "name"], [bits |-> <<>>, none |-> TRUE, all |-> FALSE, form |-> "int"],
           [bits |-> <<>>, none |-> FALSE, all |-> TRUE, form |-> "const"], [bits |-> <<>>, none |-> FALSE, all |-> TRUE, form |-> "name"]}
LogCalls ==
       {[op |-> "SetLogLevel", args |-> a] : a \in [1..1 -> LvArgs] \cup {<<x, y>> : x \in {LvArg(<<1>>), LvArg(<<3, 4, 6>>)}, y \in LvArgs}}
  \cup {[op |-> "UnsetLogLevel", args |-> a] : a \in [1..1 -> {x \in LvArgs : ~x.all}] \cup {<<LvArg(<<4>>), LvArg(<<1>>)>>}}

ClosureCalls ==
       {[op |-> "SetValidityPolicy", mode |-> m] : m \in {"none", "ok", "bad"}}
  \cup {[op |-> o, on |-> b] : o \in {"SetPresentationPolicy", "SetEqualityPolicy", "SetUnmarshaler", "SetMarshaler", "SetLessFunc"}, b \in BOOLEAN}

Calls(s) ==
       (IF "list" \in Fams THEN ListCalls(s) ELSE {})
  \cup (IF "aux" \in Fams THEN AuxCalls ELSE {})
  \cup (IF "err" \in Fams THEN {[op |-> "SetErr", on |-> TRUE], [op |-> "SetErr", on |-> FALSE]} ELSE {})
  \cup (IF "closures" \in Fams THEN ClosureCalls ELSE {})
  \cup (IF "lessfn" \in Fams THEN {[op |-> "SetLessFunc", on |-> b] : b \in BOOLEAN} ELSE {})
  \cup (IF "loglevel" \in Fams THEN LogCalls ELSE {})
  \cup (IF "grow" \in Fams THEN GrowCalls ELSE {})
  \cup (IF "marshal" \in Fams THEN MarshalCalls ELSE {})
  \* the second decoding branch: a CONDITION row handed to an initialised receiver (ONE new Condition element)
  \cup (IF "marshal" \in Fams /\ s.live THEN {[op |-> "Marshal", kind |-> "CONDITION", xs |-> <<"k", "v">>]} ELSE {})
  \cup (IF "opts" \in Fams THEN OptCalls ELSE {})
  \cup (IF "policy" \in Fams THEN PolCalls ELSE {})
  \cup (IF "life" \in Fams THEN LifeCalls ELSE {})
  \cup (IF "defrag" \in Fams THEN DefragCalls(s) ELSE {})
  \cup (IF "settings" \in Fams THEN SettingCalls(s) ELSE {})
  \cup (IF "query" \in Fams THEN {[op |-> "Front"], [op |-> "Back"]} \cup
                                 {[op |-> "Index", i |-> i] : i \in AllIdx(s)} ELSE {})

InitStates == {[NewState(k, c) EXCEPT !.opts = o, !.mtx = m] : k \in Kinds, c \in Caps, o \in InitOpts, m \in InitMtx}
          \cup (IF "life" \in Fams THEN {DeadState} ELSE {})

DstStates == IF "transfer" \in Fams
             THEN {NewState("LIST", c) : c \in DstCaps} ELSE {DeadState}

Init == st \in InitStates /\ dst \in DstStates

Forms == {"native", "alias", "ptr", "foreign"}

DstCalls == IF "transfer" \in Fams
            THEN (IF "push" \in DstOps THEN {[op |-> "Push", xs |-> xs] : xs \in Batches} ELSE {}) \cup
                 (IF "pop" \in DstOps THEN {[op |-> "Pop"]} ELSE {}) \cup
                 (IF "ronly" \in DstOps THEN {[op |-> "SetOpt", f |-> "ronly", m |-> "toggle"]} ELSE {}) \cup
                 (IF "nnest" \in DstOps THEN {[op |-> "SetOpt", f |-> "nnest", m |-> "toggle"]} ELSE {}) \cup
                 (IF "policy" \in DstOps THEN {[op |-> "SetPushPolicy", on |-> TRUE, acc |-> SetToSeq(Vals)],       \* approves everything
                                                [op |-> "SetPushPolicy", on |-> FALSE, acc |-> <<>>]} ELSE {})
            ELSE {}
XferCalls == IF "transfer" \in Fams
             THEN {[op |-> "Transfer", form |-> f, dir |-> d] : f \in Forms, d \in {"fwd", "back"}}
             ELSE {}

(***************************************************************************)
(* Trans(s, d): every transition enabled in (s, d) as a record             *)
(*   [c: the call, on: which handle it is issued on ("st" / "dst"),        *)
(*    ret: return values, s: successor of st, d: successor of dst]         *)
(* "fwd" Transfer: st is the source; "back": st is the destination.        *)
(***************************************************************************)
Trans(s, d) ==
       {LET r == Step(s, c) IN [c |-> c, on |-> "st", ret |-> r.ret, s |-> r.s, d |-> d] : c \in Calls(s)}
  \cup {LET r == Step(d, c) IN [c |-> c, on |-> "dst", ret |-> r.ret, s |-> s, d |-> r.s] : c \in DstCalls}
  \cup {LET r == IF c.dir = "fwd" THEN Step2(s, d, c.form) ELSE Step2(d, s, c.form) IN
        [c |-> c, on |-> "st", ret |-> r.ret,
         s |-> IF c.dir = "fwd" THEN r.src ELSE r.dst,
         d |-> IF c.dir = "fwd" THEN r.dst ELSE r.src] : c \in XferCalls}

InBound(t) == Len(t.s.e) <= MaxLen /\ Len(t.d.e) <= MaxLen

Next == \E t \in Trans(st, dst) : InBound(t) /\ st' = t.s /\ dst' = t.d

Spec == Init /\ [][Next]_vars

-----------------------------------------------------------------------------
(* Properties of the design.  State invariants, step invariants (evaluated *)
(* for every transition t enabled in every reachable state) and genuine    *)
(* action properties.                                                      *)

TypeOK == /\ st.live \in BOOLEAN /\ st.opts \subseteq Flags /\ st.cap \in Nat
          /\ st.fifo \in BOOLEAN /\ st.err \in {"none", "user", "policy", "lib"}

\* C03: a positive capacity is never exceeded; Cap/Avail/IsFull agree
CapInv == /\ (st.live /\ st.cap > 0) => Len(st.e) <= st.cap
          /\ (dst.live /\ dst.cap > 0) => Len(dst.e) <= dst.cap
CapObs == LET o == Obs(st) IN
          st.live => /\ (st.cap > 0 => o.cap = st.cap /\ o.avail = st.cap - o.len
                                      /\ (o.full = "true") = (o.len = st.cap))
                     /\ (st.cap = 0 => o.cap = -1 /\ o.avail = -1 /\ o.full = "false")

Usable(s) == s.live /\ ~ReadOnly(s)

\* C01: every op changes Len by exactly the documented amount and returns
\* what actually happened
LenDelta(s, t) ==
  t.on = "st" =>
  LET dl == Len(t.s.e) - Len(s.e) IN
  CASE t.c.op = "Push"   -> dl >= 0 /\ dl <= Len(t.c.xs)
    [] t.c.op = "Pop"    -> /\ dl = (IF Len(s.e) > 0 /\ Usable(s) THEN -1 ELSE 0)
                            /\ (dl = -1 => t.ret[1] = (IF s.fifo THEN Head(s.e) ELSE s.e[Len(s.e)]))
                            /\ (t.ret[2] = "true") = (dl = -1 /\ t.ret[1] # Nil)
    [] t.c.op = "Insert" -> /\ dl = (IF t.ret = <<"true">> THEN 1 ELSE 0)
                            /\ (dl = 1 => \E p \in 1..Len(t.s.e) : t.s.e[p] = t.c.x /\ LoRemAt(t.s.e, p) = s.e)
    [] t.c.op = "Remove" -> /\ dl = (IF t.ret[2] = "true" THEN -1 ELSE 0)
                            /\ (dl = -1 => \E p \in 1..Len(s.e) : s.e[p] = t.ret[1] /\ LoRemAt(s.e, p) = t.s.e)
    [] t.c.op \in {"Replace", "Swap", "Reverse", "SetFIFO", "SetOpt"} -> dl = 0
    [] t.c.op \in {"Reset", "Free"} -> Usable(s) => Len(t.s.e) = 0
    [] OTHER -> TRUE

\* algebraic laws of the list operations (C01)
ListLaws(s) ==
  Usable(s) =>
    /\ Step(Step(s, [op |-> "Reverse"]).s, [op |-> "Reverse"]).s = s
    /\ \A i, j \in 0..(Len(s.e) - 1) :
          LET c == [op |-> "Swap", i |-> i, j |-> j] IN Step(Step(s, c).s, c).s = s
    /\ (Len(s.e) > 0 /\ \A n \in 1..Len(s.e) : s.e[n] # Nil) =>
          Step(s, [op |-> "Pop"]).ret = FrontRet(s.e, s.fifo)

\* C09: read-only frame -- while the flag stays set nothing but the error changes
ReadOnlyFrame(s, t) ==
  (t.on = "st" /\ s.live /\ ReadOnly(s) /\ t.c.op # "Transfer") =>
     /\ t.s.live
     /\ (ReadOnly(t.s) => (t.s = s \/ (t.c.op = "SetErr" /\ [t.s EXCEPT !.err = s.err] = s)))
     /\ (~ReadOnly(t.s) => (t.c.op = "SetOpt" /\ t.c.f = "ronly" /\ [t.s EXCEPT !.opts = s.opts] = s))
     /\ (t.c.op = "Free" => t.ret = <<"err">>)

\* C17: a dead handle stays dead and returns zero results
Inert(s, t) == (t.on = "st" /\ ~s.live /\ t.c.op \notin {"Transfer", "Marshal"}) => (t.s = s /\ t.ret = ZeroRet(t.c))

\* C18: an option switch changes exactly its own flag and nothing else
OptIndependence(s, t) ==
  (t.on = "st" /\ t.c.op = "SetOpt") =>
        /\ t.s.opts \ {t.c.f} = s.opts \ {t.c.f}
        /\ [t.s EXCEPT !.opts = {}] = [s EXCEPT !.opts = {}]
        /\ ((Usable(s) \/ (s.live /\ t.c.f = "ronly")) =>
              (t.c.f \in t.s.opts) = (CASE t.c.m = "on" -> TRUE [] t.c.m = "off" -> FALSE
                                         [] OTHER -> t.c.f \notin s.opts))

\* C18: log levels form a bit-set with faithful "none" / "all" shortcuts; nothing else changes
LogLevelLaw(s, t) ==
  (t.on = "st" /\ t.c.op \in {"SetLogLevel", "UnsetLogLevel"}) =>
     /\ [t.s EXCEPT !.lvl = {}] = [s EXCEPT !.lvl = {}]
     /\ (~Usable(s) => t.s = s)
     /\ (Usable(s) /\ t.c.op = "SetLogLevel" /\ Len(t.c.args) = 1 /\ ~t.c.args[1].none /\ ~t.c.args[1].all
            => t.s.lvl = s.lvl \cup LoRange(t.c.args[1].bits))
     /\ (Usable(s) /\ t.c.op = "UnsetLogLevel" /\ Len(t.c.args) = 1 => t.s.lvl = s.lvl \ LoRange(t.c.args[1].bits))

\* C13: while no-nesting is on (and no policy decides) Push stores every
\* non-Stack value and no Stack value (capacity permitting)
NoNestPush(s, t) ==
  (t.on = "st" /\ t.c.op = "Push" /\ Usable(s) /\ "nnest" \in s.opts /\ ~s.haspol) =>
     LET keep == SelectSeq(t.c.xs, LAMBDA v : ~IsStackVal(v)) IN
     t.s.e = s.e \o SubSeq(keep, 1, Len(t.s.e) - Len(s.e))
     /\ (s.cap = 0 => Len(t.s.e) - Len(s.e) = Len(keep))

\* C14: nothing a policy rejected is ever stored; the consult log is a prefix
\* of the offered values restricted to the moments at which room remained
PolicyDecides(s, t) ==
  (t.on = "st" /\ t.c.op = "Push" /\ Usable(s) /\ s.haspol) =>
        /\ \A n \in (Len(s.e) + 1)..Len(t.s.e) : t.s.e[n] \in s.acc
        /\ Len(t.ret) <= Len(t.c.xs)
        /\ (Full(s.e, s.cap) => t.ret = <<>>)
        /\ (t.s.err # s.err => (t.s.err = "policy" /\ \E n \in 1..Len(t.ret) : t.ret[n] \notin s.acc))
        /\ ((\E n \in 1..Len(t.ret) : t.ret[n] \notin s.acc) => t.s.err = "policy")     \* Err() reports THAT rejection

\* C14: installed closures decide; removing one restores the built-in behaviour;
\* BASIC refuses a presentation policy, records an error and renders empty
ClosuresDecide(s, t) ==
  (t.on = "st" /\ Usable(s)) =>
    /\ (t.c.op = "SetPresentationPolicy" /\ s.kind = "BASIC" => (~t.s.ppol /\ t.s.err = "lib" /\ Obs(t.s).strsrc = "empty"))
    /\ (t.c.op = "SetValidityPolicy" => (Obs(t.s).valid = "err") = (t.c.mode = "bad"))
    /\ (t.c.op = "SetValidityPolicy" /\ t.c.mode = "bad" => Obs(t.s).strsrc = "empty")
    /\ (t.c.op \in {"SetPresentationPolicy", "SetEqualityPolicy", "SetUnmarshaler", "SetMarshaler", "SetLessFunc"} /\ ~t.c.on /\ s.kind # "BASIC"
          => [t.s EXCEPT !.ppol = FALSE, !.epol = FALSE, !.upol = FALSE, !.mpol = FALSE, !.lpol = FALSE]
             = [s EXCEPT !.ppol = FALSE, !.epol = FALSE, !.upol = FALSE, !.mpol = FALSE, !.lpol = FALSE])
    \* without a comparison closure Less is a function of the CURRENT content alone
    /\ (~t.s.lpol /\ t.s.live => Obs(t.s).less = Obs([t.s EXCEPT !.ppol = FALSE, !.epol = FALSE, !.upol = FALSE, !.mpol = FALSE, !.vpol = "none"]).less)

\* C15: Transfer never touches the source; success means dst = dst ++ src
TransferFrame(s, d, t) ==
  t.c.op = "Transfer" =>
       LET s0 == IF t.c.dir = "fwd" THEN s ELSE d
           d0 == IF t.c.dir = "fwd" THEN d ELSE s
           s1 == IF t.c.dir = "fwd" THEN t.s ELSE t.d
           d1 == IF t.c.dir = "fwd" THEN t.d ELSE t.s
       IN /\ s1 = s0
          /\ (t.ret = <<"true">> => d1.e = d0.e \o s0.e)
          /\ ((d0.cap > 0 /\ Len(s0.e) > d0.cap - Len(d0.e)) => (t.ret = <<"false">> /\ d1 = d0))
          /\ ((t.c.form = "foreign" \/ ~d0.live \/ ReadOnly(d0)) => (t.ret = <<"false">> /\ d1 = d0))
          /\ ((s0.live /\ Usable(d0) /\ t.c.form # "foreign" /\ ~d0.haspol /\ "nnest" \notin d0.opts
               /\ (d0.cap = 0 \/ Len(s0.e) <= d0.cap - Len(d0.e))) => t.ret = <<"true">>)

\* C03: the (Len, cap) projection of every transition is a step of the integer core CapCore.tla,
\* whose invariant Apalache proves inductive for EVERY capacity and length (run/props.py, stage "capcore")
Core == INSTANCE CapCore WITH len <- Len(st.e), cap <- st.cap
CapRefines(s, d, t) ==
  /\ (t.on = "st" /\ Usable(s) /\ t.s.live /\ t.c.op # "Transfer") =>
       LET l == Len(s.e)  l2 == Len(t.s.e) IN
       CASE t.c.op = "Push" /\ ~s.haspol /\ "nnest" \notin s.opts -> Core!StepRel("grow", Len(t.c.xs), l, s.cap, l2, t.s.cap)
         [] t.c.op = "Push"   -> \E a \in 0..Len(t.c.xs) : Core!StepRel("grow", a, l, s.cap, l2, t.s.cap)
         [] t.c.op = "Insert" -> Core!StepRel("insert", 0, l, s.cap, l2, t.s.cap) \/ Core!StepRel("same", 0, l, s.cap, l2, t.s.cap)
         [] t.c.op \in {"Pop", "Remove", "Reset", "Defrag"} -> Core!StepRel("shrink", 0, l, s.cap, l2, t.s.cap)
         [] t.c.op = "Marshal" -> \E a \in 0..(Len(t.c.xs) + 2) : Core!StepRel("grow", a, l, s.cap, l2, t.s.cap)
         [] OTHER -> Core!StepRel("same", 0, l, s.cap, l2, t.s.cap)
  /\ (t.c.op = "Transfer") =>
       LET s0 == IF t.c.dir = "fwd" THEN s ELSE d
           d0 == IF t.c.dir = "fwd" THEN d ELSE s
           d1 == IF t.c.dir = "fwd" THEN t.d ELSE t.s
       IN (d0.live /\ d1.live) =>
            /\ \/ Core!StepRel("xfer", Len(s0.e), Len(d0.e), d0.cap, Len(d1.e), d1.cap)
               \/ Core!StepRel("same", 0, Len(d0.e), d0.cap, Len(d1.e), d1.cap)
               \* a destination that refuses single values (push policy, no-nesting) receives the admitted ones: element-wise growth
               \/ /\ (d0.haspol \/ "nnest" \in d0.opts)
                  /\ \E a \in 0..Len(s0.e) : Core!StepRel("grow", a, Len(d0.e), d0.cap, Len(d1.e), d1.cap)
            /\ ((s0.live /\ Usable(d0) /\ t.c.form # "foreign" /\ ~d0.haspol /\ "nnest" \notin d0.opts)
                  => Core!StepRel("xfer", Len(s0.e), Len(d0.e), d0.cap, Len(d1.e), d1.cap))
  /\ (t.on = "st" /\ t.s.live => (Obs(t.s).cap = Core!CapOf(t.s.cap) /\ Obs(t.s).avail = Core!AvailOf(Len(t.s.e), t.s.cap)
                                  /\ Obs(t.s).full = B2S(Core!FullOf(Len(t.s.e), t.s.cap))))

StepProps ==
  /\ ListLaws(st)
  /\ \A t \in Trans(st, dst) :
        /\ LenDelta(st, t) /\ ReadOnlyFrame(st, t) /\ Inert(st, t) /\ OptIndependence(st, t)
        /\ NoNestPush(st, t) /\ PolicyDecides(st, t) /\ TransferFrame(st, dst, t) /\ ClosuresDecide(st, t) /\ LogLevelLaw(st, t)
        /\ (t.s.live /\ t.s.cap > 0 => Len(t.s.e) <= t.s.cap)
        /\ CapRefines(st, dst, t)

\* genuine action properties
FifoLatch == [][(st.live /\ st'.live /\ st.fifo) => st'.fifo]_vars
DeadStaysDead == [][(~st.live /\ "marshal" \notin Fams) => ~st'.live]_vars

-----------------------------------------------------------------------------
(* Transition-table emission: one JSON line per distinct abstract state,   *)
(* carrying its observables and every enabled transition (successor given  *)
(* as the set of changed fields).                                          *)

JState(s) == [s EXCEPT !.opts = SetToSeq(s.opts), !.acc = SetToSeq(s.acc), !.lvl = SetToSeq(s.lvl)]
Delta(a, b) == LET J == JState(b) IN [f \in {f \in DOMAIN a : a[f] # b[f]} |-> J[f]]

EmitRec ==
  IF "transfer" \in Fams
  THEN [st |-> JState(st), obs |-> Obs(st), dst |-> JState(dst), dobs |-> Obs(dst),
        init |-> (st \in InitStates /\ dst \in DstStates),
        tr |-> {[c |-> t.c, on |-> t.on, ret |-> t.ret, ib |-> InBound(t),
                 d |-> Delta(st, t.s), dd |-> Delta(dst, t.d)] : t \in Trans(st, dst)}]
  ELSE [st |-> JState(st), obs |-> Obs(st), init |-> (st \in InitStates),
        tr |-> {[c |-> t.c, on |-> t.on, ret |-> t.ret, ib |-> InBound(t),
                 d |-> Delta(st, t.s)] : t \in Trans(st, dst)}]

Emit == OUT = "" \/
        Serialize(ToJson(EmitRec) \o "\n", OUT,
                  [format |-> "TXT", charset |-> "UTF-8",
                   openOptions |-> <<"WRITE", "CREATE", "APPEND">>]).exitValue = 0
=============================================================================
