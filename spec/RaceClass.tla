------------------------------ MODULE RaceClass ------------------------------
(***************************************************************************)
(* Classification of Go race-detector reports (properties C10, C11).       *)
(* A report is a pair of accesses to one address; each access is given by  *)
(* its kind (read / write) and the innermost go-stackage function on its   *)
(* stack.                                                                  *)
(*                                                                         *)
(* Design facts the classification rests on (spec/Concurrent.tla):         *)
(*  - every write to the shared content and to the lock bookkeeping        *)
(*    happens inside a critical section, in one of CritWriters;            *)
(*  - the public wrappers and lock() itself read the slice header / the    *)
(*    configuration record BEFORE the lock is taken (the mutex lives in    *)
(*    slot 0 of the slice it protects): PreCheckReaders.                   *)
(* The second fact is the OPEN KNOWN FINDING "C10/race/precheck-read": an  *)
(* unlocked pre-check read racing with a locked write.  Repairing it means *)
(* restructuring every wrapper, so it is listed, not fixed.  Everything    *)
(* else -- two writes, a write outside CritWriters, a read outside         *)
(* PreCheckReaders against a write -- is a violation.                      *)
(***************************************************************************)
EXTENDS Integers, Sequences, FiniteSets, TLC, Json, IOUtils

CONSTANTS RACEFILE, RESULT, MODE     \* MODE = "mutators" (C10) | "queries" (C11)

Reports == ndJsonDeserialize(RACEFILE)

CritWriters == {"(*stack).pop", "(*stack).reset", "(*stack).insert", "(*stack).remove", "(*stack).genericAppend",
                "(*stack).methodAppend", "(*stack).swap", "(*stack).reverse", "(*stack).replace",
                "(*stack).lock", "(*stack).unlock", "(*stack).implode", "(*stack).defrag", "(*stack).push"}

PreCheckReaders == {"(*stack).config", "stack.positive", "(*stack).lock", "Stack.getState", "Stack.Len", "Stack.IsInit",
                    "Stack.IsEmpty", "stack.ulen", "stack.len", "(*stack).isInit", "stack.canMutex", "(*stack).mutex",
                    "Stack.IsZero", "stack.cap", "stack.isFIFO", "nodeConfig.positive", "stack.isFull", "stack.index"}

IsRead(k)  == k \in {"Read", "Previous read"}
IsWrite(k) == k \in {"Write", "Previous write"}

KnownPair(ka, fa, kb, fb) == IsRead(ka) /\ fa \in PreCheckReaders /\ IsWrite(kb) /\ fb \in CritWriters

Class(r) ==
  IF MODE = "queries" THEN "violation"            \* queries never write: no report at all is acceptable
  ELSE IF KnownPair(r.k1, r.f1, r.k2, r.f2) \/ KnownPair(r.k2, r.f2, r.k1, r.f1) THEN "precheck-read"
  ELSE "violation"

VARIABLES l, known, bad
Init == l = 1 /\ known = 0 /\ bad = <<>>
Next == /\ l <= Len(Reports) /\ l' = l + 1
        /\ LET r == Reports[l] IN
           IF r.k1 = "none" THEN UNCHANGED <<known, bad>>        \* placeholder line of an empty report file
           ELSE IF Class(r) = "precheck-read" THEN known' = known + 1 /\ bad' = bad
           ELSE bad' = Append(bad, [line |-> l]) /\ known' = known
Spec == Init /\ [][Next]_<<l, known, bad>>
Done == (l = Len(Reports) + 1) =>
          Serialize(ToJson([consumed |-> l - 1, lines |-> Len(Reports), known |-> known, bad |-> bad]) \o "\n", RESULT,
                    [format |-> "TXT", charset |-> "UTF-8", openOptions |-> <<"WRITE", "CREATE", "TRUNCATE_EXISTING">>]).exitValue = 0
=============================================================================
