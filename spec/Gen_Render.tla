----------------------------- MODULE Gen_Render -----------------------------
(***************************************************************************)
(* Case generator for the rendering grammar (spec -> code).  Each family   *)
(* is a finite set of trees that TLC enumerates exhaustively; for every    *)
(* tree the laws of the grammar are checked and one JSON line              *)
(* [in |-> tree, exp |-> RenderStack(tree)] is emitted for replay into the *)
(* real String().                                                          *)
(***************************************************************************)
EXTENDS Trees, Json, IOUtils

CONSTANTS FAMILY, OUT

Kids1 == <<X, YZ, TrStk("AND", <<X, Y>>), KV>>
Kids2 == <<LT, U, KGeS>>
Kids3 == <<E, N, TrStk("NOT", <<X>>), UU, WS, F32>>

\* F1: every option combination on the root, fixed children
FamRoot == UNION {Configs(k, kids) : k \in Kinds4, kids \in {Kids1, Kids2, Kids3}}

\* F2: every option combination on a nested stack, under plain and no-padding parents
FamChild ==
  UNION {{[TrStk(rk, <<Y, c, KV>>) EXCEPT !.nspad = rns] : c \in Configs(ck, <<X, YZ>>)} :
            rk \in {"AND", "LIST"}, rns \in BOOLEAN, ck \in Kinds4}

\* F3: shapes -- all child sequences up to a width over the alternatives that matter:
\* leaves of every text class, empty / BASIC / NOT stacks, valid and invalid Conditions
Alts == {X, YZ, E, U, UU, WS, N, B, LT,
         TrStk("AND", <<>>), TrStk("BASIC", <<X>>), [TrStk("OR", <<>>) EXCEPT !.paren = TRUE],
         TrStk("NOT", <<X>>), TrStk("NOT", <<>>), [TrStk("NOT", <<X, Y>>) EXCEPT !.fold = TRUE],
         [TrStk("NOT", <<X>>) EXCEPT !.sym = <<"!">>], [TrStk("OR", <<X, Y>>) EXCEPT !.paren = TRUE],
         KV, KGeS, KNoOp, KNoEx, KBadOp, [KV EXCEPT !.paren = TRUE, !.enc = <<<<QT>>>>], [KV EXCEPT !.nspad = TRUE]}

RootVariants(k) ==
  {TrStk(k, <<>>), [TrStk(k, <<>>) EXCEPT !.nspad = TRUE], [TrStk(k, <<>>) EXCEPT !.lonce = TRUE],
   [TrStk(k, <<>>) EXCEPT !.paren = TRUE, !.fold = TRUE], [TrStk(k, <<>>) EXCEPT !.lonce = TRUE, !.nspad = TRUE],
   [TrStk(k, <<>>) EXCEPT !.enc = <<<<QT>>>>]}

FamShape(w) == {[r EXCEPT !.e = es] : r \in UNION {RootVariants(k) : k \in Kinds4}, es \in SeqsUpTo(Alts, w)}

\* F4: depth -- a nested stack whose children are themselves alternatives
Inner == {X, E, TrStk("AND", <<>>), TrStk("NOT", <<X>>), KNoOp, KV, [TrStk("LIST", <<X, Y>>) EXCEPT !.delim = <<",">>]}
FamDeep ==
  {TrStk(rk, <<a, [TrStk(ck, es) EXCEPT !.paren = p, !.nspad = ns], b>>) :
      rk \in {"AND", "LIST"}, ck \in Kinds4, p \in BOOLEAN, ns \in BOOLEAN,
      a \in {X, KV}, b \in {Y, TrStk("NOT", <<>>)}, es \in SeqsUpTo(Inner, 2)}

\* F5: aliases (C12) -- each nested Stack / Condition in every form
\* walias: alias with the README's delegating String method; xalias: alias whose own
\* String method returns unrelated text (the native rendering must still win)
Forms == {"native", "alias", "walias", "xalias", "ptr"}
FamAlias ==
  {TrStk(rk, <<[TrStk(ck, <<X, [KV EXCEPT !.form = f3]>>) EXCEPT !.form = f1], [KGeS EXCEPT !.form = f2, !.ex = [KGeS.ex EXCEPT !.form = f3]]>>) :
      rk \in {"AND", "LIST"}, ck \in {"OR", "NOT"}, f1 \in Forms, f2 \in Forms, f3 \in Forms}

Cases ==
  CASE FAMILY = "root"   -> FamRoot
    [] FAMILY = "child"  -> FamChild
    [] FAMILY = "shape1" -> FamShape(1)
    [] FAMILY = "shape2" -> FamShape(2)
    [] FAMILY = "shape3" -> FamShape(3)
    [] FAMILY = "deep"   -> FamDeep
    [] FAMILY = "alias"  -> FamAlias

VARIABLE cs
Init == cs \in Cases
Next == UNCHANGED cs
Spec == Init /\ [][Next]_cs

Laws == RdLaws(cs)

Emit == OUT = "" \/
        Serialize(ToJson([in |-> cs, exp |-> RenderStack(cs)]) \o "\n", OUT,
                  [format |-> "TXT", charset |-> "UTF-8", openOptions |-> <<"WRITE", "CREATE", "APPEND">>]).exitValue = 0

\* the same families, judged on what each node reports about its size (fn "measure")
EmitM == OUT = "" \/
         Serialize(ToJson([in |-> cs, exp |-> Measure(cs)]) \o "\n", OUT,
                   [format |-> "TXT", charset |-> "UTF-8", openOptions |-> <<"WRITE", "CREATE", "APPEND">>]).exitValue = 0
=============================================================================
