------------------------------ MODULE ListOps ------------------------------
(***************************************************************************)
(* Pure (variable-free) operators describing what a go-stackage Stack is   *)
(* at the level of its public API: an ordered list of values plus a        *)
(* configuration record.  One operator, Step(s, c), gives for EVERY        *)
(* abstract state s and EVERY call c the successor state and the values    *)
(* the call returns.  Step is shared by                                    *)
(*   - the exhaustive model (Stackage.tla),                                *)
(*   - transition-table generation for replay into the Go code,            *)
(*   - trace validation of histories recorded from the Go code             *)
(*     (StackageTrace.tla), and                                            *)
(*   - the linearisation search for concurrent histories (LinTrace.tla).   *)
(*                                                                         *)
(* Values are strings: "nil", leaf atoms ("a", "b", "v17", ...), and the   *)
(* class names "S" (native Stack), "A" (Stack alias), "P" (pointer to a    *)
(* Stack alias), "C" (Condition).  Return values are sequences of strings  *)
(* (booleans as "true"/"false") so that every comparison TLC performs is   *)
(* between values of one kind.                                             *)
(***************************************************************************)
EXTENDS Integers, Sequences, FiniteSets, TLC

Nil == "nil"
StackVals == {"S", "A", "P", "Z"}      \* Z: a native Stack that renders as nothing (empty, or BASIC)
IsStackVal(v) == v \in StackVals

Flags == {"paren", "fold", "nspad", "lonce", "neg", "fwd", "ronly", "nnest"}

B2S(b) == IF b THEN "true" ELSE "false"

LoRemAt(e, p)    == SubSeq(e, 1, p - 1) \o SubSeq(e, p + 1, Len(e))
LoInsAt(e, p, x) == SubSeq(e, 1, p - 1) \o <<x>> \o SubSeq(e, p, Len(e))
LoRev(e)         == [i \in 1..Len(e) |-> e[Len(e) + 1 - i]]
LoSwap(e, p, q)  == [i \in 1..Len(e) |-> IF i = p THEN e[q] ELSE IF i = q THEN e[p] ELSE e[i]]
LoSet(e, p, x)   == [i \in 1..Len(e) |-> IF i = p THEN x ELSE e[i]]
LoNonNil(e)      == SelectSeq(e, LAMBDA v : v # Nil)
LoRange(q)       == {q[i] : i \in 1..Len(q)}

(***************************************************************************)
(* Text order (Stack.Less): token order = byte order of the UTF-8          *)
(* encodings (UTF-8 is prefix free and order preserving, so comparing      *)
(* token by token is comparing byte by byte).                              *)
(***************************************************************************)
TokOrder == <<"TAB", "LF", "SP", "!", "\"", "#", "$", "%", "&", "'", "(", ")", "*", "+", ",", "-", ".", "/",
              "0", "1", "2", "3", "4", "5", "6", "7", "8", "9", ":", ";", "<", "=", ">", "?", "@",
              "A", "B", "C", "D", "E", "F", "G", "H", "I", "J", "K", "L", "M", "N", "O", "P", "Q", "R", "S", "T", "U", "V", "W", "X", "Y", "Z",
              "[", "\\", "]", "^", "_", "`",
              "a", "b", "c", "d", "e", "f", "g", "h", "i", "j", "k", "l", "m", "n", "o", "p", "q", "r", "s", "t", "u", "v", "w", "x", "y", "z",
              "{", "|", "}", "~", "NB", "U2", "EM", "U3", "U4">>
TxRank(t) == CHOOSE i \in 1..Len(TokOrder) : TokOrder[i] = t

RECURSIVE TxLess(_, _)
TxLess(a, b) == IF b = <<>> THEN FALSE
                ELSE IF a = <<>> THEN TRUE
                ELSE IF Head(a) = Head(b) THEN TxLess(Tail(a), Tail(b))
                ELSE TxRank(Head(a)) < TxRank(Head(b))

\* the text the default Less sees for an abstract element value of the list model:
\* a one-letter value is its own token; "v12" / "i3" are letter + decimal digits; a native nested Stack
\* (class S, built as And().Push("in")) renders as "in"; an alias WITHOUT a String method (A, P) and an
\* empty Stack (Z) have no text
Digits == <<"0", "1", "2", "3", "4", "5", "6", "7", "8", "9">>
RECURSIVE NumToks(_)
NumToks(n) == IF n < 10 THEN <<Digits[n + 1]>> ELSE NumToks(n \div 10) \o <<Digits[(n % 10) + 1]>>
Letters1 == {"a", "b", "c", "d", "e", "f", "g", "h", "k", "p", "q", "r", "s", "t", "u", "w", "x", "y", "z"}
ValToks(v) ==
  IF v \in Letters1 THEN <<v>>
  ELSE IF v = "S" THEN <<"i", "n">>
  ELSE IF v \in {"A", "P", "Z"} THEN <<>>
  ELSE IF \E n \in 0..99 : v = "v" \o ToString(n) THEN <<"v">> \o NumToks(CHOOSE n \in 0..99 : v = "v" \o ToString(n))
  ELSE IF \E n \in 0..99 : v = "i" \o ToString(n) THEN <<"i">> \o NumToks(CHOOSE n \in 0..99 : v = "i" \o ToString(n))
  ELSE <<"?">>        \* no text defined for this value: instances that observe `less` use only the values above

(***************************************************************************)
(* Index translation: the only place where the negative / forward index    *)
(* options matter.  A nil slot is "not found".                             *)
(***************************************************************************)
Lookup(e, O, i) ==
  LET L == Len(e)
      fail == [ok |-> FALSE, pos |-> 0, v |-> Nil]
      at(p) == [ok |-> e[p] # Nil, pos |-> p, v |-> e[p]]
  IN  IF L = 0 THEN fail
      ELSE IF i < 0 THEN (IF "neg" \in O /\ -i <= L THEN at(L + 1 + i) ELSE fail)
      ELSE IF i > L - 1 THEN (IF "fwd" \in O THEN at(L) ELSE fail)
      ELSE at(i + 1)

IndexRet(e, O, i) ==
  LET r == Lookup(e, O, i) IN IF r.ok THEN <<r.v, "true">> ELSE <<Nil, "false">>

RECURSIVE FirstNonNilFrom(_, _, _)
FirstNonNilFrom(e, p, d) ==      \* scan from position p in direction d (+1 / -1)
  IF p < 1 \/ p > Len(e) THEN <<Nil, "false">>
  ELSE IF e[p] # Nil THEN <<e[p], "true">>
  ELSE FirstNonNilFrom(e, p + d, d)

FrontRet(e, fifo) == IF fifo THEN FirstNonNilFrom(e, 1, 1) ELSE FirstNonNilFrom(e, Len(e), -1)
BackRet(e, fifo)  == IF fifo THEN FirstNonNilFrom(e, Len(e), -1) ELSE FirstNonNilFrom(e, 1, 1)

Full(e, k) == k > 0 /\ Len(e) >= k

(***************************************************************************)
(* Push without a policy: capacity and no-nesting filter each offered      *)
(* value independently; earliest offered values win.                       *)
(***************************************************************************)
RECURSIVE PushAll(_, _, _, _)
PushAll(e, k, nn, xs) ==
  IF xs = <<>> THEN e
  ELSE LET x == Head(xs) IN
       PushAll(IF (nn /\ IsStackVal(x)) \/ Full(e, k) THEN e ELSE Append(e, x), k, nn, Tail(xs))

(***************************************************************************)
(* Push with a policy (acc = set of values the policy approves).  Returns  *)
(* [e, log, rej]: new content, the consult log in order, and whether the   *)
(* batch was stopped by a rejection.  A full stack is never consulted.     *)
(***************************************************************************)
RECURSIVE PushPol(_, _, _, _, _)
PushPol(e, k, acc, xs, log) ==
  IF xs = <<>> THEN [e |-> e, log |-> log, rej |-> FALSE]
  ELSE LET x == Head(xs) IN
       IF Full(e, k) THEN PushPol(e, k, acc, Tail(xs), log)
       ELSE IF x \in acc THEN PushPol(Append(e, x), k, acc, Tail(xs), Append(log, x))
       ELSE [e |-> e, log |-> Append(log, x), rej |-> TRUE]

(***************************************************************************)
(* Transfer hands the source elements to the destination ONE Push call per *)
(* element, so a policy rejection ends only that one-element batch: the    *)
(* remaining elements are still offered (and the error is recorded).       *)
(***************************************************************************)
RECURSIVE PushEachPol(_, _, _, _, _)
PushEachPol(e, k, acc, xs, rej) ==
  IF xs = <<>> THEN [e |-> e, rej |-> rej]
  ELSE LET r == PushPol(e, k, acc, <<Head(xs)>>, <<>>) IN
       PushEachPol(r.e, k, acc, Tail(xs), rej \/ r.rej)

(***************************************************************************)
(* Defrag (property level): every nil run shorter than the scan limit =>   *)
(* exactly the non-nil elements in order.                                  *)
(***************************************************************************)
RECURSIVE MaxNilRun(_, _, _)
MaxNilRun(e, cur, best) ==
  IF e = <<>> THEN (IF cur > best THEN cur ELSE best)
  ELSE IF Head(e) = Nil THEN MaxNilRun(Tail(e), cur + 1, best)
  ELSE MaxNilRun(Tail(e), 0, IF cur > best THEN cur ELSE best)

DefragLimit(m) == IF m <= 0 THEN 50 ELSE m

(***************************************************************************)
(* The abstract state of one Stack handle.                                 *)
(***************************************************************************)
DeadState ==
  [live |-> FALSE, kind |-> "NONE", cap |-> 0, fifo |-> FALSE, opts |-> {},
   e |-> <<>>, err |-> "none", haspol |-> FALSE, acc |-> {}, mtx |-> FALSE,
   id |-> "", cat |-> "", delim |-> "", sym |-> "", enc |-> <<>>,
   \* user closures (C14): validity policy none / approving / rejecting; the others installed or not
   vpol |-> "none", ppol |-> FALSE, epol |-> FALSE, upol |-> FALSE, mpol |-> FALSE,
   \* comparison function (sort.Interface): FALSE = the built-in ordering, TRUE = a user closure
   lpol |-> FALSE,
   \* log levels: a bit-set over 16 levels (bit numbers 1..16)
   lvl |-> {},
   \* auxiliary map: "none" (never set), "empty" (fresh map), "given" (the caller's map, by reference), "given0" (the caller's map, allocated but empty: by reference too);
   \* logger: "devnull" (default / off), "stdout", "stderr", "custom"
   aux |-> "none", logger |-> "devnull"]

NewState(kind, cap) ==
  [DeadState EXCEPT !.live = TRUE, !.kind = kind, !.cap = cap]

ReadOnly(s) == "ronly" \in s.opts

(***************************************************************************)
(* Encapsulation pairs: a new pair is refused when one of its characters   *)
(* is already in use.                                                      *)
(***************************************************************************)
EncChars(enc) == UNION {LoRange(enc[i]) : i \in 1..Len(enc)}
EncAdd(enc, pair) ==
  IF Len(pair) \notin {1, 2} THEN enc
  ELSE IF LoRange(pair) \cap EncChars(enc) # {} THEN enc
  ELSE Append(enc, pair)
RECURSIVE EncAddAll(_, _)
EncAddAll(enc, pairs) ==
  IF pairs = <<>> THEN enc ELSE EncAddAll(EncAdd(enc, Head(pairs)), Tail(pairs))

RECURSIVE SymCat(_)
SymCat(parts) ==
  IF parts = <<>> THEN ""
  ELSE (IF Head(parts).form \in {"str", "rune"} THEN Head(parts).v ELSE "") \o SymCat(Tail(parts))

FoldWord(w) ==
  CASE w = "AND" -> "and" [] w = "OR" -> "or" [] w = "NOT" -> "not"
    [] w = "LIST" -> "list" [] w = "BASIC" -> "basic" [] OTHER -> w

\* Kind() as built and documented: the kind word, lower-cased while the fold
\* option is on; the code additionally reports the symbol when one is set
\* (no listed property depends on that; modelled as built).
KindObs(s) == IF s.sym # "" THEN s.sym
              ELSE IF "fold" \in s.opts THEN FoldWord(s.kind) ELSE s.kind

(***************************************************************************)
(* Log levels (C18): a bit-set with "none" and "all" shortcuts.  An         *)
(* argument is [bits, none, all]: the level bits it names (a name or a      *)
(* constant names one bit, a raw integer any number), or one of the two     *)
(* shortcuts.  SetLogLevel processes its arguments left to right: "none"    *)
(* clears everything and stops, "all" sets everything and stops, anything   *)
(* else is OR-ed in.  UnsetLogLevel clears the named bits and skips "none". *)
(* (Unknown names / types and UnsetLogLevel("all") are outside the model:   *)
(* the property is silent and documentation and code disagree.)             *)
(***************************************************************************)
AllBits == 1..16
RECURSIVE LvShift(_, _)
LvShift(lvl, args) ==
  IF args = <<>> THEN lvl
  ELSE LET a == Head(args) IN
       IF a.none THEN {} ELSE IF a.all THEN AllBits
       ELSE LvShift(lvl \cup LoRange(a.bits), Tail(args))
RECURSIVE LvUnshift(_, _)
LvUnshift(lvl, args) ==
  IF args = <<>> THEN lvl
  ELSE LET a == Head(args) IN
       IF a.none THEN LvUnshift(lvl, Tail(args))
       ELSE LvUnshift(lvl \ LoRange(a.bits), Tail(args))

LvName(b) ==
  CASE b = 1 -> "CALLS" [] b = 2 -> "POLICY" [] b = 3 -> "STATE" [] b = 4 -> "DEBUG" [] b = 5 -> "ERROR" [] b = 6 -> "TRACE"
    [] b = 7 -> "USER1" [] b = 8 -> "USER2" [] b = 9 -> "USER3" [] b = 10 -> "USER4" [] b = 11 -> "USER5" [] b = 12 -> "USER6"
    [] b = 13 -> "USER7" [] b = 14 -> "USER8" [] b = 15 -> "USER9" [] OTHER -> "USER10"
RECURSIVE LvJoin(_, _)
LvJoin(lvl, from) ==      \* names of the set bits >= from, in bit order, comma separated
  LET S == {b \in lvl : b >= from} IN
  IF S = {} THEN ""
  ELSE LET b == CHOOSE x \in S : \A y \in S : x <= y
           rest == LvJoin(lvl, b + 1)
       IN IF rest = "" THEN LvName(b) ELSE LvName(b) \o "," \o rest
LvString(lvl) == IF lvl = {} THEN "NONE" ELSE IF lvl = AllBits THEN "ALL" ELSE LvJoin(lvl, 1)

(***************************************************************************)
(* Step: one public call on one handle.                                    *)
(* Mutators that are refused (dead handle, read-only) leave the state      *)
(* untouched and return the zero result of their signature.                *)
(***************************************************************************)
Keep(s, r) == [s |-> s, ret |-> r]

\* the Stack decoded by Marshal: empty ("Z") when only the label was given
\* a CONDITION row decodes into a Condition ("C"), which an initialised receiver gains through the same Push
MarshalVal(c) == IF c.kind = "CONDITION" THEN "C" ELSE IF c.xs = <<>> \/ c.kind = "BASIC" THEN "Z" ELSE "S"     \* Z: renders as nothing

IsMutator(op) ==
  op \in {"Push", "Pop", "Insert", "Remove", "Replace", "Swap", "Reverse", "Reset",
          "SetFIFO", "SetPushPolicy", "SetMutex", "SetID", "SetCategory",
          "SetDelimiter", "SetSymbol", "SetEncap", "Defrag", "Free"}

ZeroRet(c) ==
  CASE c.op \in {"Pop", "Remove", "Index", "Front", "Back"} -> <<Nil, "false">>
    [] c.op \in {"Insert", "Replace"}                        -> <<"false">>
    [] c.op = "Free"                                         -> <<"nil">>
    [] OTHER                                                 -> <<>>

\* Stack.Less with the built-in ordering, on the CURRENT content: an addressed element that exists but has
\* no text makes it false; an address that finds nothing counts as the empty text (before everything)
LessL(s, i, j) ==
  LET a == Lookup(s.e, s.opts, i)
      b == Lookup(s.e, s.opts, j)
      ta == IF a.ok THEN ValToks(a.v) ELSE <<>>
      tb == IF b.ok THEN ValToks(b.v) ELSE <<>>
  IN IF (a.ok /\ ta = <<>>) \/ (b.ok /\ tb = <<>>) THEN FALSE ELSE TxLess(ta, tb)

StepLive(s, c) ==
  LET L == Len(s.e) IN
  CASE c.op = "Push" ->
         IF s.haspol
         THEN LET r == PushPol(s.e, s.cap, s.acc, c.xs, <<>>) IN
              [s |-> [s EXCEPT !.e = r.e, !.err = IF r.rej THEN "policy" ELSE s.err],
               ret |-> r.log]
         ELSE [s |-> [s EXCEPT !.e = PushAll(s.e, s.cap, "nnest" \in s.opts, c.xs)],
               ret |-> <<>>]
    [] c.op = "Pop" ->
         IF L = 0 THEN Keep(s, <<Nil, "false">>)
         ELSE LET p == IF s.fifo THEN 1 ELSE L IN
              [s |-> [s EXCEPT !.e = LoRemAt(s.e, p)], ret |-> <<s.e[p], B2S(s.e[p] # Nil)>>]
    [] c.op = "Insert" ->
         IF c.x = Nil \/ Full(s.e, s.cap) THEN Keep(s, <<"false">>)
         ELSE LET p == IF c.i <= 0 THEN 1 ELSE IF c.i >= L THEN L + 1 ELSE c.i + 1 IN
              [s |-> [s EXCEPT !.e = LoInsAt(s.e, p, c.x)], ret |-> <<"true">>]
    [] c.op = "Remove" ->
         LET r == Lookup(s.e, s.opts, c.i) IN
         IF r.ok THEN [s |-> [s EXCEPT !.e = LoRemAt(s.e, r.pos)], ret |-> <<r.v, "true">>]
         ELSE Keep(s, <<Nil, "false">>)
    [] c.op = "Replace" ->
         IF c.x # Nil /\ 0 <= c.i /\ c.i < L
         THEN [s |-> [s EXCEPT !.e = LoSet(s.e, c.i + 1, c.x)], ret |-> <<"true">>]
         ELSE Keep(s, <<"false">>)
    [] c.op = "Swap" ->
         IF 0 <= c.i /\ c.i < L /\ 0 <= c.j /\ c.j < L
         THEN [s |-> [s EXCEPT !.e = LoSwap(s.e, c.i + 1, c.j + 1)], ret |-> <<>>]
         ELSE Keep(s, <<>>)
    [] c.op = "Reverse" -> [s |-> [s EXCEPT !.e = LoRev(s.e)], ret |-> <<>>]
    [] c.op = "Reset"   -> [s |-> [s EXCEPT !.e = <<>>], ret |-> <<>>]
    [] c.op = "Defrag"  ->
         \* only specified when every nil run is shorter than the scan limit
         [s |-> [s EXCEPT !.e = LoNonNil(s.e), !.err = "none"], ret |-> <<>>]
    [] c.op = "SetFIFO" -> [s |-> [s EXCEPT !.fifo = s.fifo \/ c.b], ret |-> <<>>]
    [] c.op = "SetPushPolicy" ->
         [s |-> [s EXCEPT !.haspol = c.on, !.acc = IF c.on THEN LoRange(c.acc) ELSE {}], ret |-> <<>>]
    [] c.op = "SetMutex" -> [s |-> [s EXCEPT !.mtx = TRUE], ret |-> <<>>]
    [] c.op = "SetID" ->
         \* "_random" (any case) draws a 24-character [A-Z0-9] identifier, "_addr" stores the
         \* pointer rendering Addr() returns; both are nondeterministic values of a stated SHAPE
         [s |-> [s EXCEPT !.id = CASE c.v \in {"_random", "_RANDOM", "_Random"} -> "<random24>"
                                    [] c.v \in {"_addr", "_ADDR"} -> "<addr>"
                                    [] OTHER -> c.v], ret |-> <<>>]
    [] c.op = "SetCategory" -> [s |-> [s EXCEPT !.cat = c.v], ret |-> <<>>]
    [] c.op = "SetDelimiter" ->
         \* a string or a non-zero rune is taken; any other argument clears
         [s |-> IF s.kind = "LIST"
                THEN [s EXCEPT !.delim = IF c.form \in {"str", "rune"} THEN c.v ELSE ""]
                ELSE s, ret |-> <<>>]
    [] c.op = "SetSymbol" ->
         \* concatenation of the string / rune arguments; other types ignored
         [s |-> IF s.kind # "LIST" THEN [s EXCEPT !.sym = SymCat(c.parts)] ELSE s, ret |-> <<>>]
    [] c.op = "SetEncap" ->
         [s |-> [s EXCEPT !.enc = IF c.pairs = <<>> THEN <<>> ELSE EncAddAll(s.enc, c.pairs)],
          ret |-> <<>>]
    [] c.op = "Free" -> [s |-> DeadState, ret |-> <<"nil">>]
    [] c.op = "SetAuxiliary" ->
         \* no argument or nil => a fresh empty map; otherwise the given map itself
         [s |-> [s EXCEPT !.aux = IF c.form = "map" THEN "given" ELSE IF c.form = "map0" THEN "given0" ELSE "empty"], ret |-> <<>>]
    [] c.op = "SetLogger" ->
         \* "stdout" / 1, "stderr" / 2, a *log.Logger; "none" / "off" / "null" / "discard" / 0 / nil / anything else => discard
         [s |-> [s EXCEPT !.logger = CASE c.arg \in {"stdout", "STDOUT", "int1"} -> "stdout"
                                        [] c.arg \in {"stderr", "StdErr", "int2"} -> "stderr"
                                        [] c.arg = "custom" -> "custom"
                                        [] OTHER -> "devnull"], ret |-> <<>>]
    [] c.op = "SetLogLevel"   -> [s |-> [s EXCEPT !.lvl = LvShift(s.lvl, c.args)], ret |-> <<>>]
    [] c.op = "UnsetLogLevel" -> [s |-> [s EXCEPT !.lvl = LvUnshift(s.lvl, c.args)], ret |-> <<>>]
    [] c.op = "SetValidityPolicy" -> [s |-> [s EXCEPT !.vpol = c.mode], ret |-> <<>>]
    [] c.op = "SetPresentationPolicy" ->
         \* a BASIC stack refuses a presentation policy and records an error
         IF s.kind = "BASIC" THEN [s |-> [s EXCEPT !.err = "lib"], ret |-> <<>>]
         ELSE [s |-> [s EXCEPT !.ppol = c.on], ret |-> <<>>]
    [] c.op = "SetEqualityPolicy" -> [s |-> [s EXCEPT !.epol = c.on], ret |-> <<>>]
    [] c.op = "SetUnmarshaler" -> [s |-> [s EXCEPT !.upol = c.on], ret |-> <<>>]
    [] c.op = "SetMarshaler" -> [s |-> [s EXCEPT !.mpol = c.on], ret |-> <<>>]
    [] c.op = "SetLessFunc" -> [s |-> [s EXCEPT !.lpol = c.on], ret |-> <<>>]      \* no argument / nil: back to the built-in ordering
    [] c.op = "Marshal" /\ s.mpol -> Keep(s, <<"closure">>)        \* the installed Marshaler decides; nothing is pushed
    [] c.op = "Marshal" ->
         \* an initialised receiver gains the decoded Stack as ONE new element,
         \* through Push (so capacity, no-nesting and a push policy apply)
         [s |-> IF s.haspol
                THEN LET r == PushPol(s.e, s.cap, s.acc, <<MarshalVal(c)>>, <<>>) IN
                     [s EXCEPT !.e = r.e, !.err = IF r.rej THEN "policy" ELSE s.err]
                ELSE [s EXCEPT !.e = PushAll(s.e, s.cap, "nnest" \in s.opts, <<MarshalVal(c)>>)],
          ret |-> <<"nil">>]

Step(s, c) ==
  IF c.op = "SetOpt" THEN
       \* SetReadOnly is the one switch that works on a read-only instance
       IF ~s.live \/ (ReadOnly(s) /\ c.f # "ronly") THEN Keep(s, <<>>)
       ELSE LET on == CASE c.m = "on"  -> TRUE
                        [] c.m = "off" -> FALSE
                        [] OTHER       -> c.f \notin s.opts
            IN [s |-> [s EXCEPT !.opts = IF on THEN s.opts \cup {c.f} ELSE s.opts \ {c.f}],
                ret |-> <<>>]
  ELSE IF c.op = "SetErr" THEN       \* allowed on a read-only instance
       IF ~s.live THEN Keep(s, <<>>)
       ELSE [s |-> [s EXCEPT !.err = IF c.on THEN "user" ELSE "none"], ret |-> <<>>]
  ELSE IF c.op = "Index" THEN
       Keep(s, IF s.live THEN IndexRet(s.e, s.opts, c.i) ELSE <<Nil, "false">>)
  ELSE IF c.op = "Front" THEN
       Keep(s, IF s.live THEN FrontRet(s.e, s.fifo) ELSE <<Nil, "false">>)
  ELSE IF c.op = "Back" THEN
       Keep(s, IF s.live THEN BackRet(s.e, s.fifo) ELSE <<Nil, "false">>)
  ELSE IF c.op = "Marshal" /\ ~s.live THEN
       \* Marshal on an uninitialised receiver initialises it: kind from the
       \* label, no capacity, the remaining entries as elements
       [s |-> [NewState(c.kind, 0) EXCEPT !.e = c.xs], ret |-> <<"nil">>]
  ELSE IF ~s.live THEN Keep(s, ZeroRet(c))
  ELSE IF ReadOnly(s) THEN Keep(s, IF c.op = "Free" THEN <<"err">>
                                   ELSE IF c.op = "Marshal" THEN (IF s.mpol THEN <<"closure">> ELSE <<"nil">>)
                                   ELSE ZeroRet(c))
  ELSE StepLive(s, c)

(***************************************************************************)
(* Transfer: a call on a source handle with a destination handle.          *)
(* dform says how the destination is handed over: "native", "alias",       *)
(* "ptr" (all convertible), or "foreign" (not a Stack at all).             *)
(***************************************************************************)
Step2(src, dst, dform) ==
  LET no == [src |-> src, dst |-> dst, ret |-> <<"false">>] IN
  IF ~src.live \/ ~dst.live \/ dform = "foreign" \/ ReadOnly(dst) THEN no
  ELSE IF dst.cap > 0 /\ Len(src.e) > dst.cap - Len(dst.e) THEN no
  ELSE IF dst.haspol
       THEN LET r == PushEachPol(dst.e, dst.cap, dst.acc, src.e, FALSE) IN
            [src |-> src,
             dst |-> [dst EXCEPT !.e = r.e, !.err = IF r.rej THEN "policy" ELSE dst.err],
             ret |-> <<B2S(r.e = dst.e \o src.e)>>]
       ELSE LET ne == PushAll(dst.e, dst.cap, "nnest" \in dst.opts, src.e) IN
            [src |-> src, dst |-> [dst EXCEPT !.e = ne], ret |-> <<B2S(ne = dst.e \o src.e)>>]

(***************************************************************************)
(* Observables: everything a user can read back through the public API     *)
(* (plus the raw option bits through the verif hook).  One shape, produced *)
(* identically by TLC (ToJson) and by the Go harness.                      *)
(***************************************************************************)
FlagOrder == <<"paren", "fold", "nspad", "lonce", "neg", "fwd", "ronly", "nnest">>

Obs(s) ==
  LET L == Len(s.e) IN
  IF ~s.live THEN
    [init |-> "false", len |-> 0, empty |-> "true", cap |-> 0, avail |-> 0, full |-> "false",
     kind |-> "<invalid_stack>", fifo |-> "false", idx |-> <<>>, front |-> <<Nil, "false">>,
     back |-> <<Nil, "false">>, bits |-> <<>>, ronly |-> "false", paren |-> "false",
     padded |-> "true", cannest |-> "false", nesting |-> "false", err |-> "none",
     canmtx |-> "false", id |-> "unspecified", cat |-> "", delim |-> "", sym |-> "",
     enc |-> <<>>, isenc |-> "false", elems |-> <<>>, integ |-> "ok", locked |-> "false",
     valid |-> "err", strsrc |-> "empty", eqsrc |-> "none", umsrc |-> "none", loglevels |-> "",
     aux |-> "none", logger |-> "none", less |-> <<"false", "false", "false">>]
  ELSE
    [init |-> "true", len |-> L, empty |-> B2S(L = 0),
     cap |-> IF s.cap > 0 THEN s.cap ELSE -1,
     avail |-> IF s.cap > 0 THEN s.cap - L ELSE -1,
     full |-> B2S(s.cap > 0 /\ L = s.cap),
     kind |-> KindObs(s), fifo |-> B2S(s.fifo),
     idx |-> [n \in 1..(2 * L + 3) |-> IndexRet(s.e, s.opts, n - L - 2)],
     front |-> FrontRet(s.e, s.fifo), back |-> BackRet(s.e, s.fifo),
     bits |-> [n \in 1..Len(FlagOrder) |-> B2S(FlagOrder[n] \in s.opts)],
     ronly |-> B2S("ronly" \in s.opts), paren |-> B2S("paren" \in s.opts),
     padded |-> B2S("nspad" \notin s.opts), cannest |-> B2S("nnest" \notin s.opts),
     nesting |-> B2S(\E n \in 1..L : IsStackVal(s.e[n])),
     err |-> s.err, canmtx |-> B2S(s.mtx), id |-> s.id, cat |-> s.cat,
     delim |-> s.delim, sym |-> s.sym, enc |-> s.enc, isenc |-> B2S(Len(s.enc) > 0),
     elems |-> s.e, integ |-> "ok", locked |-> "false",
     \* closures: Valid reports an error exactly when the validity closure does; a rejected or BASIC
     \* stack renders empty; otherwise an installed closure's result is what the method returns
     valid |-> IF s.vpol = "bad" THEN "err" ELSE "ok",
     strsrc |-> IF s.kind = "BASIC" \/ s.vpol = "bad" THEN "empty"
                ELSE IF s.ppol THEN "closure"
                \* built-in rendering is empty only when nothing contributes: no parentheses, no lead-once
                \* operator (LIST has none), and every element is an empty stack
                ELSE IF (\A n \in 1..L : s.e[n] = "Z") /\ "paren" \notin s.opts /\ ("lonce" \notin s.opts \/ s.kind = "LIST")
                     THEN "empty" ELSE "builtin",
     eqsrc |-> IF s.epol THEN "closure" ELSE "builtin",
     umsrc |-> IF s.upol THEN "closure" ELSE "builtin",
     loglevels |-> LvString(s.lvl), aux |-> s.aux, logger |-> s.logger,
     \* Less(0,1), Less(1,0), Less(0,0): the user closure of the model answers i > j; the built-in ordering
     \* always looks at the content as it is NOW
     less |-> IF s.lpol THEN <<"false", "true", "false">>
              ELSE <<B2S(LessL(s, 0, 1)), B2S(LessL(s, 1, 0)), B2S(LessL(s, 0, 0))>>]

=============================================================================
