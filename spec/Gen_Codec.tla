------------------------------ MODULE Gen_Codec ------------------------------
(***************************************************************************)
(* Case generators for the codec.                                          *)
(*  c04*: expression trees -> Unmarshal -> Marshal into a zero Stack ->    *)
(*        walk / Unmarshal again / IsEqual (round trip, property C04);     *)
(*  c16*: junk []any trees fed to Marshal on zero and initialised          *)
(*        receivers (property C16).                                        *)
(***************************************************************************)
EXTENDS Codec, Json, IOUtils

CONSTANTS FAMILY, OUT

Kinds5 == {"AND", "OR", "NOT", "LIST", "BASIC"}
Lvs == {X, N, B, TrNil}
C1  == {KV, TrCnd(<<"j">>, "Ne", N), TrCnd(<<"u">>, "user", X)}
S1  == {TrStk(k, es) : k \in Kinds5, es \in SeqsUpTo({X, N, TrNil}, 2)}
S1s == {TrStk("OR", <<X, N>>), TrStk("LIST", <<>>), TrStk("BASIC", <<X>>), TrStk("NOT", <<TrNil, X>>), TrStk("AND", <<N>>)}
A2  == Lvs \cup S1s \cup C1 \cup {TrCnd(<<"k">>, "Ge", s) : s \in {TrStk("AND", <<X, N>>), TrStk("LIST", <<>>)}}
           \cup {TrCnd(<<"o">>, "Eq", KV)}                                   \* Condition holding a Condition
S2  == {TrStk(k, es) : k \in Kinds5, es \in SeqsUpTo(A2, 2)}
S2s == {TrStk("AND", <<X, TrStk("OR", <<N, TrNil>>)>>), TrStk("LIST", <<KV, TrStk("BASIC", <<>>)>>),
        TrStk("NOT", <<TrCnd(<<"k">>, "Le", TrStk("OR", <<X>>))>>), TrStk("OR", <<TrNil, TrCnd(<<"o">>, "Eq", KV)>>)}
A3  == {X, TrNil} \cup S2s \cup {TrCnd(<<"d">>, "Eq", s) : s \in S2s}
S3  == {TrStk(k, es) : k \in {"AND", "LIST", "BASIC"}, es \in SeqsUpTo(A3, 2)}
\* case folding and aliases: IsEqual is not part of the claim there
SF  == {[TrStk(k, <<X, [c EXCEPT !.fold = f2, !.form = fm]>>) EXCEPT !.fold = f1] :
          k \in {"AND", "LIST"}, c \in S1s, f1 \in BOOLEAN, f2 \in BOOLEAN, fm \in {"native", "alias", "ptr"}}

\* a Condition (in any form) holding a Stack in any form, and a Condition holding such a Condition
SFC == {TrStk(k, <<X, [TrCnd(<<"k">>, "Ge", [TrStk("OR", <<X, N>>) EXCEPT !.form = fm]) EXCEPT !.form = fc]>>) :
          k \in {"AND", "LIST"}, fm \in {"native", "alias", "walias", "ptr"}, fc \in {"native", "alias", "walias", "ptr"}}
   \cup {TrStk("AND", <<TrCnd(<<"o">>, "Eq", [TrCnd(<<"k">>, "Le", [TrStk("LIST", <<N>>) EXCEPT !.form = fm]) EXCEPT !.form = fc])>>) :
          fm \in {"native", "alias", "ptr"}, fc \in {"native", "alias", "ptr"}}
\* Conditions that are storable but not valid by the built-in standard (no keyword): still rebuilt with the same parts
SInv == {TrStk(k, <<c, X>>) : k \in {"AND", "BASIC"},
                              c \in {TrCnd(<<>>, "Ge", TrStk("AND", <<X, N>>)), TrCnd(<<>>, "Eq", KV), TrCnd(<<>>, "Ne", N),
                                     TrCnd(<<"o">>, "Eq", TrCnd(<<>>, "Le", TrStk("LIST", <<X>>)))}}

Trees == CASE FAMILY = "c04inv" -> SInv [] FAMILY = "c04d1" -> S1 [] FAMILY = "c04d2" -> S2 [] FAMILY = "c04d3" -> S3 [] FAMILY = "c04fold" -> SF \cup SFC [] OTHER -> {}

-----------------------------------------------------------------------------
(* junk for C16 *)
Lbl(s) == UStr(s)
JLabels == {Lbl(<<"A", "N", "D">>), Lbl(<<"a", "n", "d">>), Lbl(<<"L", "i", "s", "t">>), Lbl(<<"B", "A", "S", "I", "C">>),
            Lbl(<<"j", "u", "n", "k">>), Lbl(<<>>)}
JCond == Lbl(CondLabel)
JcondLc == Lbl(<<"c", "o", "n", "d", "i", "t", "i", "o", "n">>)
Op(id) == [t |-> "op", id |-> id]
Obj(o) == [t |-> "obj", o |-> o]
TNil == Obj([t |-> "leaf", ty |-> "*int", v |-> <<>>])
TNilS == Obj([t |-> "leaf", ty |-> "*stackage.Stack", v |-> <<>>])            \* typed nils whose type has a String method
TNilC == Obj([t |-> "leaf", ty |-> "*stackage.Condition", v |-> <<>>])
TNilO == Obj([t |-> "leaf", ty |-> "*stackage.ComparisonOperator", v |-> <<>>])
ZeroS == Obj([t |-> "leaf", ty |-> "stackage.Stack", v |-> <<>>])
ZeroC == Obj([t |-> "leaf", ty |-> "stackage.Condition", v |-> <<>>])
ReadyS == Obj(Struct(TrStk("OR", <<X, N>>)))
ReadyC == Obj(Struct(KV))
JVals == {X, N, TrNil, TNil, TNilS, TNilC, TNilO, ZeroS, ZeroC, ReadyS, ReadyC, Op("Eq"), Op("nilop")}

\* CONDITION rows: well formed, and malformed in every field
Rows == {USeq(<<JCond, UStr(<<"k">>), Op("Eq"), X>>), USeq(<<JcondLc, UStr(<<"k">>), Op("Ge"), N>>),
         USeq(<<JCond, UStr(<<"k">>), Op("Eq"), USeq(<<Lbl(<<"O", "R">>), X, N>>)>>),
         USeq(<<JCond, UStr(<<"k">>), Op("user"), ReadyC>>),
         USeq(<<JCond, UStr(<<"k">>)>>), USeq(<<JCond>>), USeq(<<JCond, UStr(<<"k">>), Op("Eq"), X, X>>),
         USeq(<<JCond, N, Op("Eq"), X>>), USeq(<<JCond, UStr(<<"k">>), X, X>>), USeq(<<JCond, UStr(<<"k">>), Op("nilop"), X>>),
         USeq(<<JCond, UStr(<<"k">>), Op("op0"), X>>), USeq(<<JCond, UStr(<<"k">>), Op("uslice"), X>>), USeq(<<JCond, UStr(<<"k">>), Op("uslice"), X, X>>), USeq(<<JCond, UStr(<<"k">>), Op("emptytext"), X>>),
         USeq(<<JCond, UStr(<<"k">>), Op("Eq"), TrNil>>), USeq(<<JCond, UStr(<<"k">>), Op("Eq"), USeq(<<>>)>>),
         USeq(<<JCond, UStr(<<"k">>), Op("Eq"), USeq(<<N>>)>>), USeq(<<JCond, UStr(<<>>), Op("Eq"), X>>),
         USeq(<<JCond, UStr(<<"k">>), Op("Eq"), TNil>>), USeq(<<JCond, UStr(<<"k">>), Op("Eq"), ZeroS>>),
         USeq(<<JCond, UStr(<<"k">>), TNilO, X>>), USeq(<<JCond, TNilS, Op("Eq"), X>>), USeq(<<JCond, UStr(<<"k">>), Op("Eq"), TNilC>>)}

Nested == Rows \cup {USeq(<<>>), USeq(<<USeq(<<>>)>>), USeq(<<N>>), USeq(<<Lbl(<<"O", "R">>), X>>), USeq(<<Lbl(<<"o", "r">>)>>),
                     USeq(<<USeq(<<Lbl(<<"N", "O", "T">>), X, TrNil>>)>>), USeq(<<Lbl(<<"j", "u", "n", "k">>), N>>)}

JunkFlat == {USeq(<<l>> \o es) : l \in JLabels \cup {JCond}, es \in SeqsUpTo(JVals, 2)}
       \cup {USeq(es) : es \in SeqsUpTo(JVals, 2)}
JunkNest == {USeq(<<l>> \o es) : l \in {Lbl(<<"A", "N", "D">>), Lbl(<<"j", "u", "n", "k">>)}, es \in SeqsUpTo(Nested \cup {X, TrNil}, 2)}
       \cup Rows \cup Nested \cup {USeq(<<r>>) : r \in Nested} \cup {USeq(<<USeq(<<r>>)>>) : r \in Rows}

Junk == CASE FAMILY = "c16flat" -> JunkFlat [] FAMILY = "c16nest" -> JunkNest [] OTHER -> {}

-----------------------------------------------------------------------------
VARIABLES cs, md
Modes == IF FAMILY \in {"c16flat", "c16nest"}
         THEN {[mode |-> "marshal", form |-> f, recv |-> r] : f \in {"variadic", "single"}, r \in {"zero", "live"}}
         ELSE {[mode |-> "roundtrip", form |-> f, cmpeq |-> (FAMILY # "c04fold")] : f \in {"variadic", "single"}}
Init == cs \in (Trees \cup Junk) /\ md \in Modes
Next == UNCHANGED <<cs, md>>
Spec == Init /\ [][Next]_<<cs, md>>

Laws == (md.mode = "roundtrip") => RoundTrip(cs)

Expected ==
  IF md.mode = "roundtrip"
  THEN [total |-> "ok", u1 |-> UnmarshalSpec(cs), err |-> "nil", struct |-> Struct(cs), u2eq |-> "true",
        iseq |-> IF md.cmpeq THEN <<"true", "true">> ELSE "*"]
  ELSE MarshalJ(IF md.recv = "zero" THEN MarshalZero(cs) ELSE MarshalLive(cs))

Emit == OUT = "" \/
        Serialize(ToJson([in |-> cs, arg |-> md, exp |-> Expected]) \o "\n",
                  OUT, [format |-> "TXT", charset |-> "UTF-8", openOptions |-> <<"WRITE", "CREATE", "APPEND">>]).exitValue = 0
=============================================================================
