-------------------------------- MODULE Equal --------------------------------
(***************************************************************************)
(* IsEqual (property C05).  Two instances built independently from         *)
(* descriptions a and b are equal iff the descriptions agree once the      *)
(* parts IsEqual is documented to ignore are erased (Canon): presentation  *)
(* options, alias form, pointer depth and unexported struct fields.  Kinds, capacity, *)
(* length, element order, Condition parts and every leaf value at any      *)
(* depth -- each element of a slice / array / map leaf included -- matter. *)
(*                                                                         *)
(* Additional leaf descriptions:                                           *)
(*   [t |-> "ptr", d, x]          pointer of depth d (1..2) to leaf x      *)
(*   [t |-> "sl", arr, ety, slack, e]  slice (arr = FALSE) or array; ety =  *)
(*        "typed": []int / []string / [][]int, "ptr": []*int (a nil       *)
(*        element = nil pointer), "any": []any (elements: any leaf or nil);*)
(*        slack = spare backing capacity the slice was allocated with      *)
(*   [t |-> "mp", vp, ks, vs]     map[string]int (vp: map[string]*int): keys ks, values vs *)
(*   [t |-> "mpa", ks, e]         map[string]any: keys ks, values e (leaves or nil) *)
(*   [t |-> "st", a, p, c, sty]   struct{A int; p string (unexported); C string}; *)
(*        sty = "plain", or "embp" / "embx": the middle field is an EMBEDDED   *)
(*        struct of an unexported / exported type (two different Go types)     *)
(***************************************************************************)
EXTENDS Trees

RECURSIVE Canon(_)
Canon(n) ==
  CASE n.t = "leaf" -> [t |-> "leaf", ty |-> n.ty, v |-> n.v]
    [] n.t = "nil"  -> [t |-> "nil"]
    [] n.t = "ptr"  -> Canon(n.x)          \* documented: pointers are dereferenced at any depth before comparing
    [] n.t = "sl"   -> [t |-> "sl", e |-> [i \in 1..Len(n.e) |-> Canon(n.e[i])]]   \* array or slice, element typing and backing capacity are not part of the value
    [] n.t = "mp"   -> [t |-> "mp", vp |-> n.vp, kv |-> {<<n.ks[i], n.vs[i]>> : i \in 1..Len(n.ks)}]      \* a map is unordered; vp: map[string]*int (another type than map[string]int)
    [] n.t = "mpa"  -> [t |-> "mpa", kv |-> {<<n.ks[i], Canon(n.e[i])>> : i \in 1..Len(n.ks)}]
    [] n.t = "st"   -> [t |-> "st", a |-> n.a, c |-> n.c, sty |-> n.sty]                   \* the unexported field is skipped
    [] n.t = "stk"  -> [t |-> "stk", k |-> n.k, cap |-> n.cap, e |-> [i \in 1..Len(n.e) |-> Canon(n.e[i])]]
    [] n.t = "cnd"  -> [t |-> "cnd", kw |-> n.kw, op |-> n.op, ex |-> Canon(n.ex)]

Eq(a, b) == Canon(a) = Canon(b)

\* point mutations of a leaf value
Bump(v) == IF v = <<>> THEN <<"q">> ELSE <<IF v[1] = "9" THEN "8" ELSE IF v[1] \in {"0", "1", "2", "3", "4", "5", "6", "7", "8"} THEN "9"
                                              ELSE IF v[1] = "q" THEN "w" ELSE "q">> \o Tail(v)
BoolFlip(v) == IF v = <<"t", "r", "u", "e">> THEN <<"f", "a", "l", "s", "e">> ELSE <<"t", "r", "u", "e">>

\* the same word in the other letter case (keywords and operator symbols are case sensitive)
Lower == <<"a", "b", "c", "k", "x", "y", "z", "q", "w", "v">>
Upper == <<"A", "B", "C", "K", "X", "Y", "Z", "Q", "W", "V">>
FlipTok(t) == IF \E i \in 1..Len(Lower) : Lower[i] = t THEN Upper[CHOOSE i \in 1..Len(Lower) : Lower[i] = t]
              ELSE IF \E i \in 1..Len(Upper) : Upper[i] = t THEN Lower[CHOOSE i \in 1..Len(Upper) : Upper[i] = t] ELSE t
CaseFlip(v) == [i \in 1..Len(v) |-> FlipTok(v[i])]
OpFlip(o) == IF o = "like" THEN "LIKE" ELSE IF o = "LIKE" THEN "like" ELSE o     \* two user operators, context "user", texts like / LIKE

\* an element replaced by something of another sort: Stack / Condition -> a text, anything else -> a Condition
Retype(c) == IF c.t \in {"stk", "cnd"} THEN TrLeaf(<<"q">>) ELSE TrCnd(<<"k">>, "Eq", TrLeaf(<<"v">>))

RECURSIVE Mutants(_)
Mutants(n) ==
  CASE n.t = "leaf" -> {[n EXCEPT !.v = IF n.ty = "bool" THEN BoolFlip(n.v) ELSE Bump(n.v)]}
                       \* another Go type that prints the same text: 5 / "5" / 5.0, true / "true"
                       \cup (IF n.ty = "int" THEN {[n EXCEPT !.ty = "str"], [n EXCEPT !.ty = "flt"]}
                             ELSE IF n.ty = "bool" THEN {[n EXCEPT !.ty = "str"]} ELSE {})
    [] n.t = "nil"  -> {}
    [] n.t = "ptr"  -> {[n EXCEPT !.x = m] : m \in Mutants(n.x)}
    [] n.t = "sl"   -> UNION {{[n EXCEPT !.e[i] = m] : m \in Mutants(n.e[i])} : i \in 1..Len(n.e)}        \* every position
                       \cup (IF n.ety = "typed" THEN {}                                                     \* nil element <-> a value
                             ELSE {[n EXCEPT !.e[i] = IF n.e[i].t = "nil" THEN TrLeafT("int", <<"7">>) ELSE TrNil] : i \in 1..Len(n.e)})
                       \cup (IF Len(n.e) > 0 THEN {[n EXCEPT !.e = SubSeq(n.e, 1, Len(n.e) - 1)]} ELSE {})   \* one fewer
                       \cup (IF Len(n.e) > 0 THEN {[n EXCEPT !.e = Append(n.e, n.e[1])]} ELSE {})            \* one more
    [] n.t = "mp"   -> UNION {{[n EXCEPT !.vs[i] = Bump(n.vs[i])], [n EXCEPT !.ks[i] = Bump(n.ks[i])]} : i \in 1..Len(n.ks)}
    [] n.t = "mpa"  -> UNION {   {[n EXCEPT !.e[i] = m] : m \in Mutants(n.e[i])}
                              \cup {[n EXCEPT !.e[i] = IF n.e[i].t = "nil" THEN TrLeaf(<<"q">>) ELSE TrNil]}   \* nil <-> a real value
                              \cup {[n EXCEPT !.ks[i] = Bump(n.ks[i])]} : i \in 1..Len(n.ks)}
    [] n.t = "st"   -> {[n EXCEPT !.a = Bump(n.a)], [n EXCEPT !.c = Bump(n.c)]}
                       \cup (IF n.sty = "plain" THEN {} ELSE {[n EXCEPT !.sty = IF n.sty = "embp" THEN "embx" ELSE "embp"]})   \* another struct type: embedded field visible on one side only
    [] n.t = "stk"  ->
         UNION {{[n EXCEPT !.e[i] = m] : m \in Mutants(n.e[i])} : i \in 1..Len(n.e)}
         \cup {[n EXCEPT !.k = IF n.k = "AND" THEN "OR" ELSE "AND"]}                                          \* kind
         \cup (IF Len(n.e) > 0 THEN {[n EXCEPT !.e = Tail(n.e)], [n EXCEPT !.e = Append(n.e, n.e[1])]} ELSE {[n EXCEPT !.e = <<X>>]})
         \cup {[n EXCEPT !.e = [j \in 1..Len(n.e) |-> IF j = i THEN n.e[i + 1] ELSE IF j = i + 1 THEN n.e[i] ELSE n.e[j]]] :
                 i \in {i \in 1..(Len(n.e) - 1) : Canon(n.e[i]) # Canon(n.e[i + 1])}}                          \* sibling swap
         \cup {[n EXCEPT !.cap = IF n.cap = 0 THEN 9 ELSE n.cap + 1]}                                          \* capacity
         \cup {[n EXCEPT !.e[i] = Retype(n.e[i])] : i \in 1..Len(n.e)}                                        \* another sort of element
    [] n.t = "cnd"  -> {[n EXCEPT !.ex = m] : m \in Mutants(n.ex)} \cup {[n EXCEPT !.ex = Retype(n.ex)]}
                       \cup {[n EXCEPT !.kw = Bump(n.kw)], [n EXCEPT !.op = IF n.op = "Eq" THEN "Ne" ELSE "Eq"]}
                       \cup ({[n EXCEPT !.kw = CaseFlip(n.kw)], [n EXCEPT !.op = OpFlip(n.op)]} \ {n})         \* letter case alone

\* variations that must NOT matter
RECURSIVE Neutral(_)
Neutral(n) ==
  CASE n.t = "st"  -> {[n EXCEPT !.p = Bump(n.p)]}
    [] n.t = "sl"  -> {[n EXCEPT !.slack = IF n.slack = 0 THEN 5 ELSE 0]}                                          \* allocated differently
                      \cup (IF \A i \in 1..Len(n.e) : n.e[i].t = "leaf" /\ n.e[i].ty = "int"                       \* []int = []*int = []any
                            THEN {[n EXCEPT !.ety = y] : y \in {"typed", "ptr", "any"} \ {n.ety}} ELSE {})
                      \cup UNION {{[n EXCEPT !.e[i] = m] : m \in Neutral(n.e[i])} : i \in 1..Len(n.e)}
    [] n.t = "stk" -> {[n EXCEPT !.paren = ~n.paren], [n EXCEPT !.nspad = ~n.nspad], [n EXCEPT !.sym = <<"&">>]}
                      \cup {[n EXCEPT !.form = f] : f \in {"native", "alias", "xalias", "ptr"} \ {n.form}}        \* C12
                      \cup UNION {{[n EXCEPT !.e[i] = m] : m \in Neutral(n.e[i])} : i \in 1..Len(n.e)}
    [] n.t = "cnd" -> {[n EXCEPT !.paren = ~n.paren]} \cup {[n EXCEPT !.ex = m] : m \in Neutral(n.ex)}
                      \cup {[n EXCEPT !.form = f] : f \in {"native", "alias", "ptr"} \ {n.form}}
    [] n.t = "ptr" -> {[n EXCEPT !.x = m] : m \in Neutral(n.x)}
    [] n.t = "mpa" -> UNION {{[n EXCEPT !.e[i] = m] : m \in Neutral(n.e[i])} : i \in 1..Len(n.ks)}
    [] OTHER -> {}

\* the oracle itself is mutation sensitive, symmetric and blind to the neutral variations
EqLaws(n) == /\ Eq(n, n)
             /\ \A m \in Mutants(n) : ~Eq(n, m) /\ ~Eq(m, n)
             /\ \A m \in Neutral(n) : Eq(n, m) /\ Eq(m, n)
=============================================================================
