------------------------------- MODULE Watch -------------------------------
(***************************************************************************)
(* What an unlocked reader may see WHILE one mutator runs (property C10).  *)
(* The public wrappers decide emptiness before they take the lock, so the  *)
(* atomicity the property promises needs more than mutual exclusion of the *)
(* critical sections: a critical section must never show the stack shorter *)
(* or longer than both of its ends (FIFO pop() once cut the receiver down  *)
(* to its configuration slice and re-appended the rest; a concurrent Pop   *)
(* then answered (nil,false) on a stack that was never empty).             *)
(*                                                                         *)
(* A record is one sequential run of mutators on a mutex-enabled stack     *)
(* with sampler goroutines reading Len() throughout; seen[i] = the lengths *)
(* sampled during call i.  Accepted iff, with s_0 = init and               *)
(* s_i = Step(s_{i-1}, calls[i]).s :                                       *)
(*    rets[i] = Step(s_{i-1}, calls[i]).ret,                               *)
(*    every l in seen[i] lies between Len(s_{i-1}.e) and Len(s_i.e),       *)
(*    final = s_k.e, and no flag (panic, configuration as element).        *)
(***************************************************************************)
EXTENDS ListOps, Json, IOUtils, TLCExt
CONSTANTS CASEFILE, RESULT

Recs == ndJsonDeserialize(CASEFILE)

FromJ(j) == [j EXCEPT !.opts = LoRange(j.opts), !.acc = LoRange(j.acc), !.lvl = LoRange(j.lvl)]

RECURSIVE StateAt(_, _)
StateAt(r, i) == IF i = 0 THEN FromJ(r.init) ELSE Step(StateAt(r, i - 1), r.calls[i]).s

Between(l, a, b) == (a <= l /\ l <= b) \/ (b <= l /\ l <= a)

BadCalls(r) ==
  {i \in 1..Len(r.calls) :
     LET pre == StateAt(r, i - 1)
         st  == Step(pre, r.calls[i])
     IN \/ st.ret # r.rets[i]
        \/ \E j \in 1..Len(r.seen[i]) : ~Between(r.seen[i][j], Len(pre.e), Len(st.s.e))}

Rejected(r) == \/ BadCalls(r) # {}
               \/ StateAt(r, Len(r.calls)).e # r.final
               \/ r.flags # <<>>

VARIABLES l, bad
Init == l = 1 /\ bad = <<>>
Next == /\ l <= Len(Recs) /\ l' = l + 1
        /\ LET r == Recs[l] IN
           bad' = IF ~Rejected(r) THEN bad
                  ELSE Append(bad, [line |-> l, calls |-> BadCalls(r),
                                    lens |-> [i \in 1..(Len(r.calls) + 1) |-> Len(StateAt(r, i - 1).e)],
                                    rets |-> [i \in 1..Len(r.calls) |-> Step(StateAt(r, i - 1), r.calls[i]).ret],
                                    final |-> StateAt(r, Len(r.calls)).e])
Spec == Init /\ [][Next]_<<l, bad>>
Done == (l = Len(Recs) + 1) =>
          Serialize(ToJson([consumed |-> l - 1, lines |-> Len(Recs), bad |-> bad]) \o "\n", RESULT,
                    [format |-> "TXT", charset |-> "UTF-8", openOptions |-> <<"WRITE", "CREATE", "TRUNCATE_EXISTING">>]).exitValue = 0
=============================================================================
