------------------------------- MODULE Render -------------------------------
(***************************************************************************)
(* The canonical rendering grammar of String() (properties C02, C06, C12,  *)
(* C14): one compositional definition over expression trees.               *)
(*                                                                         *)
(* Tree nodes (records; every field always present):                       *)
(*  leaf : [t |-> "leaf", ty, v]        v = text tokens; ty in str/int/bool*)
(*  nil  : [t |-> "nil"]                                                   *)
(*  stk  : [t |-> "stk", k, form, paren, fold, nspad, lonce, sym, delim,   *)
(*          enc, e]                      e = children                      *)
(*  cnd  : [t |-> "cnd", form, kw, op, ex, paren, nspad, enc]              *)
(* form (native / alias / walias / ptr) never influences a result: every   *)
(* operator here ignores it, which is property C12 by construction.        *)
(***************************************************************************)
EXTENDS Text

RdOpTok(o) ==
  CASE o = "Eq" -> <<"=">> [] o = "Ne" -> <<"!", "=">> [] o = "Lt" -> <<"<">> [] o = "Gt" -> <<">">>
    [] o = "Le" -> <<"<", "=">> [] o = "Ge" -> <<">", "=">> [] o \in {"user", "uslice"} -> <<"~", "=">> [] OTHER -> <<>>

\* "user" / "uslice": user-defined Operators (text ~=, context "user") whose Go types are comparable / NOT comparable (a slice type)
RdOpValid(o) == o \in {"Eq", "Ne", "Lt", "Gt", "Le", "Ge", "user", "uslice"}

RdSp(n) == IF n.nspad THEN <<>> ELSE <<"SP">>

RECURSIVE RenderStack(_), RenderCond(_), RdChild(_, _), RdExprText(_)

\* what an element contributes to its parent
RdChild(n, c) ==
  CASE c.t = "leaf" ->
         LET t == TxEncap(n.enc, c.v) IN IF t = <<>> THEN <<>> ELSE RdSp(n) \o t \o RdSp(n)
    [] c.t = "stk" ->
         LET r == RenderStack(c) IN
         IF c.k = "NOT" /\ c.sym = <<>>
         THEN (IF r = <<>> THEN <<>> ELSE TxWord("NOT", c.fold) \o <<"SP">> \o r)   \* the NOT stack's own case
         ELSE r
    [] c.t = "cnd" -> RenderCond(c)
    [] OTHER -> <<"U", "N", "K", "N", "O", "W", "N">>      \* nil / unprintable: outside the stated domain

RenderStack(n) ==
  IF n.k = "BASIC" THEN <<>>
  ELSE
  LET parts == TxNonEmpty([i \in 1..Len(n.e) |-> RdChild(n, n.e[i])])
      sp    == RdSp(n)
      word  == TxWord(n.k, n.fold)
      op    == IF n.sym # <<>> THEN n.sym ELSE word
      body  == IF n.lonce
               THEN (IF n.k = "LIST" THEN <<>>
                     ELSE IF ~n.nspad /\ n.sym = <<>> THEN <<"SP">> \o op \o <<"SP">> ELSE op) \o TxFlat(parts)
               ELSE IF n.k = "LIST" THEN TxJoin(parts, IF n.delim # <<>> THEN n.delim ELSE sp)
               ELSE IF n.sym # <<>> THEN TxJoin(parts, sp \o n.sym \o sp)
               ELSE TxJoin(parts, <<"SP">> \o word \o <<"SP">>)     \* a word is always blank separated
  IN TxCondense(IF n.paren THEN <<"(">> \o sp \o body \o sp \o <<")">> ELSE body)

RdCondValid(c) == c.kw # <<>> /\ RdOpValid(c.op) /\ c.ex.t # "nil"

RdExprText(x) ==
  CASE x.t = "leaf" -> x.v
    [] x.t = "stk"  -> RenderStack(x)
    [] x.t = "cnd"  -> RenderCond(x)
    [] OTHER        -> <<>>

RenderCond(c) ==
  IF ~RdCondValid(c) THEN <<>>
  ELSE LET p    == IF c.nspad THEN <<>> ELSE <<"SP">>
           body == c.kw \o p \o RdOpTok(c.op) \o p \o TxEncap(c.enc, RdExprText(c.ex))
       IN IF c.paren THEN <<"(">> \o p \o body \o p \o <<")">> ELSE body

Render(x) == IF x.t = "stk" THEN RenderStack(x) ELSE IF x.t = "cnd" THEN RenderCond(x) ELSE <<>>

-----------------------------------------------------------------------------
(* Laws of the grammar, checked by TLC over every generated case.          *)

RdNoDoubleBlank(s) == \A i \in 1..(Len(s) - 1) : ~(TxIsBlank(s[i]) /\ TxIsBlank(s[i + 1]))
RdNoEdgeBlank(s)   == s = <<>> \/ (~TxIsBlank(s[1]) /\ ~TxIsBlank(s[Len(s)]))
RdCondenseIdem(s)  == TxCondense(TxCondense(s)) = TxCondense(s)

\* a stack renders like the same stack without the children that contribute nothing
RdPrune(n) == [n EXCEPT !.e = SelectSeq(n.e, LAMBDA c : RdChild(n, c) # <<>>)]
RdLaws(n) ==
  LET r == RenderStack(n) IN
  /\ RdNoDoubleBlank(r) /\ RdNoEdgeBlank(r) /\ RdCondenseIdem(r)
  /\ RenderStack(RdPrune(n)) = r
  /\ (n.k = "BASIC" => r = <<>>)
=============================================================================
