---------------------------- MODULE Check_Queries ----------------------------
(***************************************************************************)
(* Queries (property C11): the answers recorded from the real package --   *)
(* once in isolation and once per goroutine while 8-16 goroutines issue    *)
(* the same queries on ONE shared structure in parallel -- must each equal *)
(* the answer the specification gives for that tree (Render, Lookup,       *)
(* TraverseSpec, UnmarshalSpec, ...).  So a parallel answer equals the     *)
(* isolated one, which in turn equals the specified one.                   *)
(***************************************************************************)
EXTENDS Codec, Order, Json, IOUtils
CONSTANTS CASEFILE, RESULT

Recs == ndJsonDeserialize(CASEFILE)

RECURSIVE NodeAt(_, _)
NodeAt(n, addr) ==
  IF addr = <<>> THEN n
  ELSE IF Head(addr) = 0 THEN NodeAt(n.ex, Tail(addr))
  ELSE NodeAt(n.e[Head(addr)], Tail(addr))

Found(x) == [ok |-> "true", v |-> Struct(x)]
Missing  == [ok |-> "false", v |-> [t |-> "nil"]]

FirstFrom(n, p, d) ==      \* first non-nil element scanning from position p in direction d
  LET S == {i \in 1..Len(n.e) : n.e[i].t # "nil" /\ (IF d = 1 THEN i >= p ELSE i <= p)}
  IN IF S = {} THEN Missing
     ELSE Found(n.e[IF d = 1 THEN CHOOSE i \in S : \A j \in S : i <= j ELSE CHOOSE i \in S : \A j \in S : i >= j])

Answer(n, q) ==
  CASE q.op = "String"    -> RenderStack(n)
    [] q.op = "Len"       -> Len(n.e)
    [] q.op = "Kind"      -> IF n.sym # <<>> THEN n.sym ELSE TxWord(n.k, n.fold)
    [] q.op = "IsEmpty"   -> B2S(Len(n.e) = 0)
    [] q.op = "IsNesting" -> B2S(\E i \in 1..Len(n.e) : n.e[i].t = "stk")
    [] q.op = "Cap"       -> IF n.cap > 0 THEN n.cap ELSE -1
    [] q.op = "Avail"     -> IF n.cap > 0 THEN n.cap - Len(n.e) ELSE -1
    [] q.op = "Index"     -> LET r == Lookup(TvSlots(n), TvOpts(n), q.i) IN IF r.ok THEN Found(n.e[r.pos]) ELSE Missing
    [] q.op = "Front"     -> FirstFrom(n, Len(n.e), -1)        \* LIFO: the newest end
    [] q.op = "Back"      -> FirstFrom(n, 1, 1)
    [] q.op = "Traverse"  -> LET r == TraverseSpec(n, q.p, <<>>) IN IF r.ok THEN Found(NodeAt(n, r.addr)) ELSE Missing
    [] q.op = "Unmarshal" -> UnmarshalSpec(n)
    [] q.op = "IsEqual"   -> IF n.eqpol THEN "err" ELSE "nil"   \* against an independently built copy; an installed equality closure (rejecting) decides
    [] q.op = "Valid"     -> "ok"
    [] q.op = "Less"      -> B2S(LessSpec(n, q.i, q.j))

VARIABLES l, bad
Init == l = 1 /\ bad = <<>>
Wrong(r) == {i \in 1..Len(r.arg) : Answer(r.in, r.arg[i]) # r.out[i]}
Next == /\ l <= Len(Recs) /\ l' = l + 1
        /\ LET r == Recs[l] IN
           bad' = IF Wrong(r) = {} THEN bad
                  ELSE Append(bad, [line |-> l, who |-> r.who, queries |-> Wrong(r),
                                    exp |-> [i \in Wrong(r) |-> Answer(r.in, r.arg[i])]])
Spec == Init /\ [][Next]_<<l, bad>>
Done == (l = Len(Recs) + 1) =>
          Serialize(ToJson([consumed |-> l - 1, lines |-> Len(Recs), bad |-> bad]) \o "\n", RESULT,
                    [format |-> "TXT", charset |-> "UTF-8", openOptions |-> <<"WRITE", "CREATE", "TRUNCATE_EXISTING">>]).exitValue = 0
=============================================================================
