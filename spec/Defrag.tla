------------------------------- MODULE Defrag -------------------------------
(***************************************************************************)
(* Defrag (property C19).                                                  *)
(*                                                                         *)
(* DefragSpec is the property: when every run of nil elements is shorter   *)
(* than the scan limit, a Stack afterwards holds exactly its non-nil       *)
(* elements in order, recursively for nested Stacks (direct elements or a  *)
(* Condition's expression), and Err() is nil.                              *)
(*                                                                         *)
(* DefragAsBuilt is a line-by-line transcription of what the package       *)
(* actually does (defrag / implode / verifyImplode in stack.go).  The      *)
(* package is WRONG for almost every input with a gap, and the existing    *)
(* test TestDefrag_experimental_001 pins one of the wrong outcomes, so     *)
(* the defect is recorded as an open known finding.  DefragAsBuilt is used *)
(* ONLY to recognise that listed finding (same input, same wrong outcome); *)
(* it never makes a correct behaviour look wrong, and a behaviour that is  *)
(* wrong in a different way is still a violation.                          *)
(***************************************************************************)
EXTENDS Traverse

DfLimit(m) == IF m <= 0 THEN 50 ELSE m

DfIsNil(c) == c.t = "nil"

RECURSIVE DfMaxRun(_, _, _)
DfMaxRun(e, cur, best) ==
  IF e = <<>> THEN (IF cur > best THEN cur ELSE best)
  ELSE IF DfIsNil(Head(e)) THEN DfMaxRun(Tail(e), cur + 1, best)
  ELSE DfMaxRun(Tail(e), 0, IF cur > best THEN cur ELSE best)

\* in the property's domain: in every Stack of the tree every nil run is shorter than the limit
RECURSIVE DfInDomain(_, _)
DfInDomain(n, m) ==
  CASE n.t = "stk" -> DfMaxRun(n.e, 0, 0) < DfLimit(m) /\ \A i \in 1..Len(n.e) : DfInDomain(n.e[i], m)
    [] n.t = "cnd" -> DfInDomain(n.ex, m)
    [] OTHER -> TRUE

RECURSIVE DefragSpec(_, _)
DefragSpec(n, m) ==
  CASE n.t = "stk" ->
         LET kept == SelectSeq(n.e, LAMBDA c : ~DfIsNil(c)) IN
         [n EXCEPT !.e = [i \in 1..Len(kept) |-> DefragSpec(kept[i], m)]]
    [] n.t = "cnd" -> IF n.ex.t = "stk" THEN [n EXCEPT !.ex = DefragSpec(n.ex, m)] ELSE n
    [] OTHER -> n

-----------------------------------------------------------------------------
(* As built.                                                               *)

DfMin(S) == CHOOSE x \in S : \A y \in S : x <= y

\* implode(): e is the element sequence (user index u is e[u + 1]); tpat is a
\* function on 0..L (tpat[0] = 1 stands for the configuration slot)
RECURSIVE DfImplode(_, _, _, _, _)
DfImplode(e, tpat, start, ct, m) ==
  IF ct >= m \/ start + ct >= Len(e) THEN [e |-> e, tpat |-> tpat]
  ELSE IF DfIsNil(e[start + ct + 1]) THEN DfImplode(e, tpat, start, ct + 1, m)
  ELSE LET e1 == [e EXCEPT ![start + 1] = e[start + ct + 1]]
           e2 == [e1 EXCEPT ![start + ct + 1] = TrNil]      \* also hits the moved element itself when ct = 0
           tp == [tpat EXCEPT ![start + ct] = 1]            \* user index used as a raw index
       IN DfImplode(e2, tp, start + 1, 0, m)

\* verifyImplode(): only the last iteration decides err; "last" mixes raw and user indexing
DfVerify(spat, tpat, L) ==
  LET marked == {i \in 1..L : tpat[i] # 0}
      imax   == IF marked = {} THEN 0 ELSE CHOOSE x \in marked : \A y \in marked : y <= x
      last0  == IF marked = {} THEN -1 ELSE 2 * imax - L - 2
      fail   == IF L = 0 THEN FALSE ELSE spat[L] # tpat[L]
  IN [last |-> last0 - 1, err |-> IF fail THEN "set" ELSE "none"]

\* (*stack).defrag(max) on ONE stack: returns [e, err] with err in {"keep", "none", "set"}
DfOneAsBuilt(n, m) ==
  LET L     == Len(n.e)
      vals  == TvSlots(n)
      O     == TvOpts(n)
      spat  == [i \in 0..L |-> IF Lookup(vals, O, i).ok THEN 1 ELSE 0]
      holes == {i \in 0..L : spat[i] = 0}
      start == IF holes = {} THEN -1 ELSE DfMin(holes)
  IN IF start = -1 \/ m <= start THEN [e |-> n.e, err |-> "keep"]
     ELSE LET im == DfImplode(n.e, [i \in 0..L |-> IF i = 0 THEN 1 ELSE 0], start, 0, m)
              vf == DfVerify(spat, im.tpat, L)
          IN IF vf.err = "none" /\ vf.last >= 0
             THEN [e |-> SubSeq(im.e, 1, vf.last), err |-> "none"]
             ELSE [e |-> im.e, err |-> vf.err]

\* Stack.Defrag: the stack itself, then -- if some element is a Stack -- every
\* element that Index() can address (so never a nil one) recursively
RECURSIVE DefragAsBuilt(_, _)
DefragAsBuilt(n, m) ==
  CASE n.t = "stk" ->
         LET one  == DfOneAsBuilt(n, DfLimit(m))
             n1   == [n EXCEPT !.e = one.e]
             nest == \E i \in 1..Len(n1.e) : n1.e[i].t = "stk"
         IN IF ~nest THEN n1
            ELSE [n1 EXCEPT !.e = [i \in 1..Len(n1.e) |->
                     LET c == n1.e[i] IN
                     IF c.t = "stk" THEN DefragAsBuilt(c, DfLimit(m))
                     ELSE IF c.t = "cnd" /\ c.ex.t = "stk" THEN [c EXCEPT !.ex = DefragAsBuilt(c.ex, DfLimit(m))]
                     ELSE c]]
    [] OTHER -> n

\* root Err() after the call; pre = an error was recorded on the root before the call
DfErrAsBuilt(n, m, pre) == LET one == DfOneAsBuilt(n, DfLimit(m)) IN
                           IF one.err = "set" THEN "set" ELSE IF one.err = "keep" /\ pre THEN "set" ELSE "none"

\* the property: Err() is nil afterwards - except that a Stack without nil elements is left untouched, its error included
DfErrSpec(n, pre) == IF pre /\ \A i \in 1..Len(n.e) : ~DfIsNil(n.e[i]) THEN "set" ELSE "none"

\* case argument: the scan limit, + 1000 when an error is recorded on the root (SetErr) before the call
DfArgLim(a) == IF a >= 1000 THEN a - 1000 ELSE a
DfArgPre(a) == a >= 1000

DfResult(tree, err) == [shape |-> Shape(tree), err |-> err]
=============================================================================
