----------------------------- MODULE Gen_Defrag -----------------------------
(***************************************************************************)
(* Case generator for Defrag: EVERY nil / non-nil pattern up to a length,  *)
(* x scan limits x index options x nesting position (top level, inside a   *)
(* Stack at position 0 or 1, inside a Condition).  Only inputs inside the  *)
(* property's domain are emitted.  Each line carries the property-level    *)
(* expectation and the as-built prediction used to recognise the listed    *)
(* known finding.                                                          *)
(***************************************************************************)
EXTENDS Defrag, Json, IOUtils

CONSTANTS FAMILY, OUT, MaxLen, Limits

Lf(i) == TrLeaf(<<"e", CASE i = 1 -> "1" [] i = 2 -> "2" [] i = 3 -> "3" [] i = 4 -> "4" [] i = 5 -> "5" [] i = 6 -> "6"
                       [] i = 7 -> "7" [] i = 8 -> "8" [] i = 9 -> "9" [] i = 10 -> "a" [] i = 11 -> "b" [] OTHER -> "c">>)

Pattern(bits) == [i \in 1..Len(bits) |-> IF bits[i] THEN Lf(i) ELSE TrNil]
Patterns == UNION {{Pattern(b) : b \in [1..n -> BOOLEAN]} : n \in 0..MaxLen}
\* three sorts of slot: a value, nil, and a TYPED nil pointer (an element like any other: not a gap)
TNilLeaf == TrLeafT("tnil", <<"~">>)
Pattern3(ks) == [i \in 1..Len(ks) |-> IF ks[i] = "v" THEN Lf(i) ELSE IF ks[i] = "n" THEN TrNil ELSE TNilLeaf]
\* (TLC evaluates constant definitions eagerly: the three-valued patterns are only built for the family that uses them)
Max3 == IF FAMILY = "tnil" THEN MaxLen ELSE 0
Patterns3 == UNION {{Pattern3(b) : b \in [1..n -> {"v", "n", "t"}]} : n \in 0..Max3}

IdxOpts == {<<FALSE, FALSE>>, <<TRUE, FALSE>>, <<FALSE, TRUE>>, <<TRUE, TRUE>>}
PStack(es, o) == [TrStk("AND", es) EXCEPT !.neg = o[1], !.fwd = o[2]]

Top     == {PStack(es, o) : es \in Patterns, o \in IdxOpts}
\* nested: the pattern stack as first or second element of a LIST, or as a Condition's expression
InStack == {TrStk("LIST", IF first THEN <<PStack(es, o), Lf(12)>> ELSE <<Lf(12), PStack(es, o)>>) :
              es \in Patterns, o \in {<<FALSE, FALSE>>, <<TRUE, TRUE>>}, first \in BOOLEAN}
InCond  == {TrStk("OR", IF first THEN <<TrCnd(<<"k">>, "Eq", PStack(es, o)), TrStk("AND", <<Lf(12)>>)>>
                        ELSE <<TrStk("AND", <<Lf(12)>>), TrCnd(<<"k">>, "Eq", PStack(es, o))>>) :
              es \in Patterns, o \in {<<FALSE, FALSE>>}, first \in BOOLEAN}
\* aliases (C12): the nested pattern stack in alias / pointer form
InAlias == {TrStk("LIST", <<[PStack(es, <<FALSE, FALSE>>) EXCEPT !.form = f], Lf(12),
                            TrCnd(<<"k">>, "Eq", [PStack(es, <<FALSE, FALSE>>) EXCEPT !.form = f])>>) :
              es \in Patterns, f \in {"alias", "walias", "ptr"}}

\* two levels down: the pattern stack inside a Stack that is itself nested -- directly, or as a Condition's expression
Deep    == {TrStk("OR", <<TrCnd(<<"k">>, "Eq", TrStk("AND", <<PStack(es, <<FALSE, FALSE>>), Lf(11)>>)), TrStk("AND", <<Lf(12)>>)>>) : es \in Patterns}
      \cup {[TrStk("LIST", <<[TrStk("AND", <<Lf(11), PStack(es, <<FALSE, FALSE>>)>>) EXCEPT !.nn = b2], Lf(12)>>) EXCEPT !.nn = b1, !.fwd = f] :
               es \in Patterns, b1 \in BOOLEAN, b2 \in BOOLEAN, f \in BOOLEAN}     \* no-nesting set afterwards / forward indices on the holders: no effect
      \cup {TrStk("LIST", <<TrStk("AND", <<TrCnd(<<"k">>, "Eq", PStack(es, <<FALSE, FALSE>>)), TrStk("OR", <<Lf(11)>>)>>), Lf(12)>>) : es \in Patterns}

\* typed nil pointers among the elements: top level, nested, in a Condition
TNil == {PStack(es, <<FALSE, FALSE>>) : es \in Patterns3}
   \cup {TrStk("LIST", <<PStack(es, <<FALSE, FALSE>>), Lf(12), TrCnd(<<"k">>, "Eq", PStack(es, <<FALSE, FALSE>>))>>) : es \in Patterns3}

Trees == CASE FAMILY = "preerr" -> Top [] FAMILY = "tnil" -> TNil [] FAMILY = "top" -> Top [] FAMILY = "instack" -> InStack [] FAMILY = "incond" -> InCond [] FAMILY = "alias" -> InAlias [] FAMILY = "deep" -> Deep

VARIABLES cs, lim
Pre == FAMILY = "preerr"          \* an error is recorded on the root (SetErr) before the call
Init == cs \in Trees /\ lim \in Limits /\ DfInDomain(cs, lim)
Next == UNCHANGED <<cs, lim>>
Spec == Init /\ [][Next]_<<cs, lim>>

\* laws of the specification operator itself
RECURSIVE NoNilLeft(_)
NoNilLeft(n) == CASE n.t = "stk" -> \A i \in 1..Len(n.e) : n.e[i].t # "nil" /\ NoNilLeft(n.e[i])
                  [] n.t = "cnd" -> NoNilLeft(n.ex) [] OTHER -> TRUE
Laws == LET r == DefragSpec(cs, lim) IN
        /\ NoNilLeft(r)
        /\ DefragSpec(r, lim) = r                                         \* idempotent
        /\ (NoNilLeft(cs) => r = cs)                                      \* nothing to do => untouched
        /\ Len(r.e) = Cardinality({i \in 1..Len(cs.e) : cs.e[i].t # "nil"})

Emit == OUT = "" \/
        Serialize(ToJson([in |-> cs, arg |-> IF Pre THEN lim + 1000 ELSE lim, exp |-> DfResult(DefragSpec(cs, lim), DfErrSpec(cs, Pre)),
                          alt |-> DfResult(DefragAsBuilt(cs, lim), DfErrAsBuilt(cs, lim, Pre))]) \o "\n",
                  OUT, [format |-> "TXT", charset |-> "UTF-8", openOptions |-> <<"WRITE", "CREATE", "APPEND">>]).exitValue = 0
=============================================================================
