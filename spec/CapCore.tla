------------------------------ MODULE CapCore ------------------------------
(***************************************************************************)
(* The capacity arithmetic of a Stack, reduced to integers: len (number of *)
(* user elements) and cap (user capacity, 0 = none).  The growth actions   *)
(* are the ones C03 names.  Two uses:                                      *)
(*  - Apalache discharges IndInv as an inductive invariant, so CapInv and  *)
(*    CapObs hold for EVERY capacity and length, not only the constants    *)
(*    TLC enumerates (IndInit => IndInv at length 0, IndInv /\ Next =>     *)
(*    IndInv' at length 1);                                                *)
(*  - Stackage.tla's StepProps checks, for every enabled transition of the *)
(*    full model, that its (Len, cap) projection is a CapCore step         *)
(*    (CapRefines), which ties this integer core to the specification the  *)
(*    real package is replayed against.                                    *)
(***************************************************************************)
EXTENDS Integers

VARIABLES
  \* @type: Int;
  len,
  \* @type: Int;
  cap

\* admitted values a offered to a stack of length l and capacity c: the earliest ones are kept
GrowTo(l, c, a) == IF c = 0 \/ a <= c - l THEN l + a ELSE c
\* Insert on a full stack fails without changing it
InsertTo(l, c)  == IF c > 0 /\ l >= c THEN l ELSE l + 1
\* Transfer-into is all or nothing
XferTo(l, c, n) == IF c = 0 \/ n <= c - l THEN l + n ELSE l

\* observers (the package's Cap / Avail / IsFull as functions of (len, cap))
CapOf(c)      == IF c = 0 THEN -1 ELSE c
AvailOf(l, c) == IF c = 0 THEN -1 ELSE c - l
FullOf(l, c)  == c > 0 /\ l = c

Push(a)     == a \in Nat /\ len' = GrowTo(len, cap, a) /\ UNCHANGED cap
Marshal(a)  == Push(a)
Insert      == len' = InsertTo(len, cap) /\ UNCHANGED cap
Transfer(n) == n \in Nat /\ len' = XferTo(len, cap, n) /\ UNCHANGED cap
Shrink(d)   == d \in Nat /\ d <= len /\ len' = len - d /\ UNCHANGED cap     \* Pop, Remove, Reset, Defrag

Next == \/ \E a \in Nat : Push(a)
        \/ Insert
        \/ \E n \in Nat : Transfer(n)
        \/ \E d \in Nat : Shrink(d)

Init == cap \in Nat /\ len = 0

CapInv == len >= 0 /\ (cap > 0 => len <= cap)
CapObs == /\ (cap > 0 => (CapOf(cap) = cap /\ AvailOf(len, cap) = cap - len /\ AvailOf(len, cap) >= 0
                          /\ (FullOf(len, cap) <=> AvailOf(len, cap) = 0)))
          /\ (cap = 0 => (CapOf(cap) = -1 /\ AvailOf(len, cap) = -1 /\ ~FullOf(len, cap)))

\* the inductive invariant: an arbitrary state satisfying it (IndInit) steps only into states satisfying it
IndInv  == cap >= 0 /\ CapInv /\ CapObs
IndInit == cap \in Int /\ len \in Int /\ IndInv

\* the step relation as a predicate over two (len, cap) pairs, for the refinement check in Stackage.tla
\* kind: "grow" (a admitted values), "insert", "xfer" (n source elements), "shrink", "same"
StepRel(kind, n, l, c, l2, c2) ==
  /\ c2 = c
  /\ CASE kind = "grow"   -> l2 = GrowTo(l, c, n)
       [] kind = "insert" -> l2 = InsertTo(l, c)
       [] kind = "xfer"   -> l2 = XferTo(l, c, n)
       [] kind = "shrink" -> l2 >= 0 /\ l2 <= l
       [] OTHER           -> l2 = l
=============================================================================
