-------------------------------- MODULE Text --------------------------------
(***************************************************************************)
(* Rendered text as a sequence of character tokens.  TLC strings are       *)
(* atomic, so a text is a sequence of one-character strings plus the named *)
(* tokens "SP" (space), "TAB", "LF" / "NB" / "EM" (line feed, U+00A0,      *)
(* U+2003: white space that is NOT a blank), "U2" / "U3" / "U4" (one multi-byte UTF-8     *)
(* rune of that many bytes).  Multi-byte runes are therefore atomic by     *)
(* construction.  The harness maps runes <-> tokens; a rune without a      *)
(* token projects to "?<hex>" and so can never match.                      *)
(***************************************************************************)
EXTENDS Integers, Sequences, FiniteSets, TLC

TxIsBlank(c) == c = "SP" \/ c = "TAB"

RECURSIVE TxTrimL(_)
TxTrimL(s) == IF s = <<>> THEN <<>> ELSE IF TxIsBlank(Head(s)) THEN TxTrimL(Tail(s)) ELSE s

RECURSIVE TxTrimR(_)
TxTrimR(s) == IF s = <<>> THEN <<>>
              ELSE IF TxIsBlank(s[Len(s)]) THEN TxTrimR(SubSeq(s, 1, Len(s) - 1)) ELSE s

RECURSIVE TxCond1(_, _)
TxCond1(s, last) ==
  IF s = <<>> THEN <<>>
  ELSE IF TxIsBlank(Head(s)) THEN (IF last THEN <<>> ELSE <<"SP">>) \o TxCond1(Tail(s), TRUE)
  ELSE <<Head(s)>> \o TxCond1(Tail(s), FALSE)

\* every run of blanks becomes one space; none at either end
TxCondense(s) == TxCond1(TxTrimR(TxTrimL(s)), FALSE)

RECURSIVE TxFlat(_)
TxFlat(parts) == IF parts = <<>> THEN <<>> ELSE Head(parts) \o TxFlat(Tail(parts))

RECURSIVE TxJoin(_, _)
TxJoin(parts, sep) ==
  IF parts = <<>> THEN <<>>
  ELSE IF Len(parts) = 1 THEN parts[1]
  ELSE Head(parts) \o sep \o TxJoin(Tail(parts), sep)

\* encapsulation pairs, first pair outermost; a pair is <<L>> or <<L, R>>
RECURSIVE TxEncap(_, _)
TxEncap(enc, v) ==
  IF enc = <<>> THEN v
  ELSE LET p == Head(enc)
           inner == TxEncap(Tail(enc), v)
       IN IF Len(p) = 1 THEN p[1] \o inner \o p[1]
          ELSE IF Len(p) = 2 THEN p[1] \o inner \o p[2]
          ELSE inner

TxLower(c) ==
  CASE c = "A" -> "a" [] c = "N" -> "n" [] c = "D" -> "d" [] c = "O" -> "o" [] c = "R" -> "r"
    [] c = "T" -> "t" [] c = "L" -> "l" [] c = "I" -> "i" [] c = "S" -> "s" [] c = "B" -> "b" [] c = "C" -> "c"
    [] OTHER -> c

TxWordUp(k) ==
  CASE k = "AND" -> <<"A", "N", "D">> [] k = "OR" -> <<"O", "R">> [] k = "NOT" -> <<"N", "O", "T">>
    [] k = "LIST" -> <<"L", "I", "S", "T">> [] k = "BASIC" -> <<"B", "A", "S", "I", "C">> [] OTHER -> <<>>

\* the operator word of a kind, lower-cased on request
TxWord(k, fold) == LET w == TxWordUp(k) IN IF fold THEN [i \in 1..Len(w) |-> TxLower(w[i])] ELSE w

TxNonEmpty(parts) == SelectSeq(parts, LAMBDA x : x # <<>>)
=============================================================================
