-------------------------------- MODULE Trees --------------------------------
(***************************************************************************)
(* Constructors for expression-tree nodes and a few fixed building blocks  *)
(* shared by the case generators (Gen_*.tla).                              *)
(***************************************************************************)
EXTENDS Render

TrLeaf(v)    == [t |-> "leaf", ty |-> "str", v |-> v]
TrLeafT(ty, v) == [t |-> "leaf", ty |-> ty, v |-> v]
TrNil        == [t |-> "nil"]
TrStk(k, e)  == [t |-> "stk", k |-> k, form |-> "native", paren |-> FALSE, fold |-> FALSE, nspad |-> FALSE,
                 lonce |-> FALSE, sym |-> <<>>, delim |-> <<>>, enc |-> <<>>, neg |-> FALSE, fwd |-> FALSE,
                 mtx |-> FALSE, cap |-> 0, nn |-> FALSE, er |-> FALSE, e |-> e]      \* nn: no-nesting switched on AFTER the elements went in; er: an error is recorded on the node (SetErr).  No operator reads either: neither concerns what is stored or reachable
TrCnd(kw, op, ex) == [t |-> "cnd", form |-> "native", kw |-> kw, op |-> op, ex |-> ex, paren |-> FALSE,
                      nspad |-> FALSE, enc |-> <<>>]

X  == TrLeaf(<<"x">>)
Y  == TrLeaf(<<"y">>)
YZ == TrLeaf(<<"y", "SP", "SP", "z">>)          \* embedded run of blanks
LT == TrLeaf(<<"SP", "l", "TAB">>)              \* leading / trailing blanks
E  == TrLeaf(<<>>)                              \* the empty string
U  == TrLeaf(<<"U2">>)                          \* one 2-byte rune
UU == TrLeaf(<<"U3", "SP", "U2", "U4">>)        \* multi-byte runes around a blank
WS == TrLeaf(<<"a", "LF", "NB", "b", "EM", "EM", "c">>)   \* line break, no-break space, em spaces: Unicode white space, NOT blanks
N  == TrLeafT("int", <<"4", "2">>)
F32 == TrLeafT("f32", <<"0", ".", "1">>)         \* a float32: its text is the SHORTEST decimal that gives the same float32 back
B  == TrLeafT("bool", <<"t", "r", "u", "e">>)

QT == <<"\"">>
LB == <<"<">>
RB == <<">">>
Encs == {<<>>, <<<<QT>>>>, <<<<LB, RB>>>>, <<<<QT>>, <<LB, RB>>>>, <<<<LB, RB>>, <<QT>>>>}
Syms == {<<>>, <<"&">>, <<"|", "|">>, <<"X", "o">>}      \* the last one has cased letters: a symbol is reproduced verbatim, case folding is for the WORD only
Delims == {<<>>, <<",">>, <<";", "SP">>}
Kinds4 == {"AND", "OR", "NOT", "LIST"}

KV    == TrCnd(<<"k">>, "Eq", TrLeaf(<<"v">>))                         \* k = v
KGeS  == TrCnd(<<"k", "2">>, "Ge", TrStk("AND", <<X, Y>>))              \* k2 >= x AND y
KNoOp == TrCnd(<<"k">>, "none", TrLeaf(<<"v">>))                       \* invalid: no operator
KNoEx == TrCnd(<<"k">>, "Eq", TrNil)                                   \* invalid: no expression
KBadOp == TrCnd(<<"k">>, "op9", TrLeaf(<<"v">>))                       \* invalid: a built-in operator outside Eq..Ge (all three parts present)

\* every combination of the per-node options a setter can actually produce
\* (SetSymbol is ignored by LIST, SetDelimiter by everything but LIST)
Configs(k, e) ==
  {[TrStk(k, e) EXCEPT !.paren = p, !.fold = f, !.nspad = ns, !.lonce = lo, !.sym = s, !.delim = d, !.enc = en] :
      p \in BOOLEAN, f \in BOOLEAN, ns \in BOOLEAN, lo \in BOOLEAN,
      s \in (IF k = "LIST" THEN {<<>>} ELSE Syms), d \in (IF k = "LIST" THEN Delims ELSE {<<>>}), en \in Encs}

SeqsUpTo(S, n) == UNION {[1..m -> S] : m \in 0..n}

\* structural shape of a tree: what Unmarshal / Defrag / Reveal results are compared on
RECURSIVE Shape(_)
Shape(n) ==
  CASE n.t = "leaf" -> [t |-> "leaf", v |-> n.v]
    [] n.t = "nil"  -> [t |-> "nil"]
    [] n.t = "stk"  -> [t |-> "stk", k |-> n.k, paren |-> n.paren, e |-> [i \in 1..Len(n.e) |-> Shape(n.e[i])]]
    [] n.t = "cnd"  -> [t |-> "cnd", kw |-> n.kw, op |-> n.op, paren |-> n.paren, ex |-> Shape(n.ex)]

\* what every Stack and Condition node of a tree answers about its own size (preorder):
\* Stack.Len / IsNesting / IsEmpty, Condition.Len / IsNesting.  A Condition holding a Stack
\* (in ANY form: native, alias, pointer) has that Stack's length; holding anything else, 1; nothing, 0.
TrB2S(b) == IF b THEN "true" ELSE "false"
RECURSIVE Measure(_), MeasureSeq(_)
MeasureSeq(es) == IF es = <<>> THEN <<>> ELSE Measure(Head(es)) \o MeasureSeq(Tail(es))
Measure(n) ==
  CASE n.t = "stk" -> <<[t |-> "stk", len |-> Len(n.e), nesting |-> TrB2S(\E i \in 1..Len(n.e) : n.e[i].t = "stk"),
                         empty |-> TrB2S(Len(n.e) = 0)]>> \o MeasureSeq(n.e)
    [] n.t = "cnd" -> <<[t |-> "cnd", len |-> IF n.ex.t = "stk" THEN Len(n.ex.e) ELSE IF n.ex.t = "nil" THEN 0 ELSE 1,
                         nesting |-> TrB2S(n.ex.t = "stk"), empty |-> "n/a"]>> \o Measure(n.ex)
    [] OTHER -> <<>>
=============================================================================
