------------------------------ MODULE CondCore ------------------------------
(***************************************************************************)
(* The go-stackage Condition (keyword, operator, expression + a            *)
(* configuration record) at the level of its public API.                   *)
(* CStep(s, c) gives, for every abstract state and every call, the         *)
(* successor state and the returned values; CObs(s) everything a user can  *)
(* read back, including Valid() and the exact String() rendering.          *)
(*                                                                         *)
(* Abstract values.  Operators: "none" (unset), the six built-ins, "op0" / *)
(* "op9" (out-of-range built-ins), "user" (a user-defined operator),       *)
(* "emptytext" / "emptyctx" (user operators with an empty String() /       *)
(* Context()), "nil" (a nil Operator argument).  Expressions: "nil",       *)
(* "s:v" / "s:w" (strings), "s:" (the empty string), "i:5", "b:t",         *)
(* "str" (a value with a String method), "S" / "A" / "P" (native Stack,    *)
(* alias, pointer to alias), "C" (a Condition).                            *)
(***************************************************************************)
EXTENDS ListOps

CFlags == {"paren", "nspad", "ronly", "nnest"}
CFlagOrder == <<"paren", "nspad", "ronly", "nnest">>

Builtin == {"Eq", "Ne", "Lt", "Gt", "Le", "Ge"}

OpText(o) ==
  CASE o = "Eq" -> "=" [] o = "Ne" -> "!=" [] o = "Lt" -> "<" [] o = "Gt" -> ">"
    [] o = "Le" -> "<=" [] o = "Ge" -> ">=" [] o \in {"op0", "op9"} -> "<invalid_operator>"
    [] o \in {"user", "userB"} -> "~=" [] o = "eqB" -> "=" [] o = "emptyctx" -> "%" [] OTHER -> ""

OpCtx(o) ==
  CASE o \in Builtin \cup {"op0", "op9"} -> "comparison"
    [] o \in {"user", "emptytext"} -> "user"
    [] o \in {"userB", "eqB"} -> "other"           \* user operators with the text of another operator (~= , =) and a context of their own
    [] OTHER -> ""

\* SetOperator stores an operator iff it is non-nil with non-empty text and context
OpAccepted(o) == o \notin {"nil", "none"} /\ OpText(o) # "" /\ OpCtx(o) # ""

ExprIsStack(x) == x \in {"S", "A", "P"}

\* the text an expression contributes to String()
ExText(x) ==
  CASE x = "s:v" -> "v" [] x = "s:w x" -> "w x" [] x = "i:5" -> "5" [] x = "b:t" -> "true" [] x = "str" -> "sv"
    [] x \in {"S", "A", "P"} -> "in"          \* And().Push("in") renders "in"
    [] x = "C" -> "k = v"                     \* Cond("k", Eq, "v")
    [] OTHER -> "unsupported_primitive_type"  \* as built for nil; outside every property's domain

CDead ==
  [live |-> FALSE, kw |-> "", op |-> "none", ex |-> "nil", opts |-> {}, enc |-> <<>>, err |-> "none",
   id |-> "", cat |-> "", vpol |-> "none", ppol |-> FALSE,
   \* further closures: equality, unmarshal and the evaluator (Evaluate hands its arguments to it; without one it reports an error)
   epol |-> FALSE, upol |-> FALSE, evpol |-> FALSE, lvl |-> {}]

CFresh == [CDead EXCEPT !.live = TRUE]

CRO(s) == "ronly" \in s.opts

\* private setters (acceptance filters of the statement)
KwSet(s, k) ==      \* k = [form, v]
  IF k.form = "str" THEN [s EXCEPT !.kw = k.v]            \* any string, the empty one included
  ELSE IF k.form = "stringer" THEN [s EXCEPT !.kw = k.v]  \* a value with a String method: its text
  ELSE s                                                   \* nil, other types: previous value stays
OpSet(s, o) == IF OpAccepted(o) THEN [s EXCEPT !.op = o] ELSE s
ExSet(s, x) ==
  IF x = "nil" \/ x = "s:" \/ (ExprIsStack(x) /\ "nnest" \in s.opts) \/ s.err # "none" THEN s
  ELSE [s EXCEPT !.ex = x]

BuiltinValid(s) == s.kw # "" /\ s.op # "none" /\ s.op \notin {"op0", "op9"} /\ s.ex # "nil"
ValidOK(s) == s.live /\ (IF s.vpol # "none" THEN s.vpol = "ok" ELSE BuiltinValid(s))

RECURSIVE EncapS(_, _)
EncapS(enc, v) ==     \* first pair outermost
  IF enc = <<>> THEN v
  ELSE LET p == Head(enc)
           inner == EncapS(Tail(enc), v)
       IN IF Len(p) = 1 THEN p[1] \o inner \o p[1] ELSE p[1] \o inner \o p[2]

RenderC(s) ==
  IF ~ValidOK(s) THEN ""
  ELSE IF s.ppol THEN "<<closure>>"
  ELSE LET pad  == IF "nspad" \in s.opts THEN "" ELSE " "
           body == s.kw \o pad \o OpText(s.op) \o pad \o EncapS(s.enc, ExText(s.ex))
       IN IF "paren" \in s.opts THEN "(" \o pad \o body \o pad \o ")" ELSE body

CKeep(s, r) == [s |-> s, ret |-> r]

CStep(s, c) ==
  IF c.op = "Init" THEN [s |-> CFresh, ret |-> <<>>]       \* replaces the instance, even a read-only one
  ELSE IF c.op = "Cond" THEN
       LET s1 == ExSet(OpSet(KwSet(CFresh, c.k), c.o), c.x) IN
       [s |-> [s1 EXCEPT !.err = IF BuiltinValid(s1) THEN "none" ELSE "set"], ret |-> <<>>]
  ELSE IF ~s.live THEN CKeep(s, IF c.op = "Free" THEN <<"nil">> ELSE <<>>)
  ELSE IF c.op = "SetOpt" THEN
       IF CRO(s) /\ c.f # "ronly" THEN CKeep(s, <<>>)
       ELSE LET on == CASE c.m = "on" -> TRUE [] c.m = "off" -> FALSE [] OTHER -> c.f \notin s.opts
            IN [s |-> [s EXCEPT !.opts = IF on THEN s.opts \cup {c.f} ELSE s.opts \ {c.f}], ret |-> <<>>]
  ELSE IF c.op = "SetErr" THEN [s |-> [s EXCEPT !.err = IF c.on THEN "set" ELSE "none"], ret |-> <<>>]
  ELSE IF CRO(s) THEN CKeep(s, IF c.op = "Free" THEN <<"err">> ELSE <<>>)
  ELSE CASE c.op = "SetKeyword"    -> [s |-> KwSet(s, c.k), ret |-> <<>>]
         [] c.op = "SetOperator"   -> [s |-> OpSet(s, c.o), ret |-> <<>>]
         [] c.op = "SetExpression" -> [s |-> ExSet(s, c.x), ret |-> <<>>]
         [] c.op = "SetEncap" ->
              [s |-> [s EXCEPT !.enc = IF c.pairs = <<>> THEN <<>> ELSE EncAddAll(s.enc, c.pairs)], ret |-> <<>>]
         [] c.op = "SetID" -> [s |-> [s EXCEPT !.id = c.v], ret |-> <<>>]
         [] c.op = "SetCategory" -> [s |-> [s EXCEPT !.cat = c.v], ret |-> <<>>]
         [] c.op = "SetLogLevel"   -> [s |-> [s EXCEPT !.lvl = LvShift(s.lvl, c.args)], ret |-> <<>>]
         [] c.op = "UnsetLogLevel" -> [s |-> [s EXCEPT !.lvl = LvUnshift(s.lvl, c.args)], ret |-> <<>>]
         [] c.op = "SetValidityPolicy" -> [s |-> [s EXCEPT !.vpol = c.mode], ret |-> <<>>]
         [] c.op = "SetPresentationPolicy" -> [s |-> [s EXCEPT !.ppol = c.on], ret |-> <<>>]
         [] c.op = "SetEqualityPolicy" -> [s |-> [s EXCEPT !.epol = c.on], ret |-> <<>>]
         [] c.op = "SetUnmarshaler" -> [s |-> [s EXCEPT !.upol = c.on], ret |-> <<>>]
         [] c.op = "SetEvaluator" -> [s |-> [s EXCEPT !.evpol = c.on], ret |-> <<>>]
         [] c.op = "Free" -> [s |-> CDead, ret |-> <<"nil">>]

CObs(s) ==
  IF ~s.live THEN
    [init |-> "false", kw |-> "", op |-> "none", opctx |-> "", ex |-> "nil", len |-> 0, nesting |-> "false",
     cannest |-> "false", paren |-> "false", padded |-> "true", ronly |-> "false", isenc |-> "false",
     enc |-> <<>>, err |-> "none", id |-> "", cat |-> "", valid |-> "err", str |-> "", bits |-> <<>>, loglevels |-> "",
     eqsrc |-> "none", umsrc |-> "none", evsrc |-> "none"]
  ELSE
    [init |-> "true", kw |-> s.kw,
     op |-> IF s.op = "none" THEN "none" ELSE OpText(s.op),
     opctx |-> IF s.op = "none" THEN "" ELSE OpCtx(s.op),
     ex |-> IF s.ex \in {"s:v", "s:w x"} THEN "str" ELSE s.ex,     \* strings project to their class
     len |-> IF s.ex = "nil" THEN 0 ELSE 1,                        \* the Stack values used here hold one element
     nesting |-> B2S(ExprIsStack(s.ex)), cannest |-> B2S("nnest" \notin s.opts),
     paren |-> B2S("paren" \in s.opts), padded |-> B2S("nspad" \notin s.opts), ronly |-> B2S(CRO(s)),
     isenc |-> B2S(Len(s.enc) > 0), enc |-> s.enc, err |-> s.err, id |-> s.id, cat |-> s.cat,
     valid |-> IF ValidOK(s) THEN "ok" ELSE "err", str |-> RenderC(s),
     bits |-> [n \in 1..Len(CFlagOrder) |-> B2S(CFlagOrder[n] \in s.opts)],
     loglevels |-> LvString(s.lvl),
     \* an installed closure's result is what IsEqual / Unmarshal / Evaluate return; without an evaluator Evaluate reports an error
     eqsrc |-> IF s.epol THEN "closure" ELSE "builtin",
     umsrc |-> IF s.upol THEN "closure" ELSE "builtin",
     evsrc |-> IF s.evpol THEN "closure" ELSE "error"]
=============================================================================
