---------------------------- MODULE Check_Defrag ----------------------------
(* code -> spec for Defrag: each recorded (tree, limit, result) line is     *)
(* classified "ok" (matches DefragSpec), "known" (input in the listed       *)
(* finding's class AND exactly the as-built wrong outcome), "out" (input    *)
(* outside the property's domain) or "bad".                                 *)
EXTENDS Defrag, Json, IOUtils
CONSTANTS CASEFILE, RESULT
Recs == ndJsonDeserialize(CASEFILE)
VARIABLES l, bad, known, outside
Init == l = 1 /\ bad = <<>> /\ known = 0 /\ outside = 0
Next == /\ l <= Len(Recs) /\ l' = l + 1
        /\ LET r == Recs[l]
               lim == DfArgLim(r.arg)
               pre == DfArgPre(r.arg)
               exp == DfResult(DefragSpec(r.in, lim), DfErrSpec(r.in, pre))
               alt == DfResult(DefragAsBuilt(r.in, lim), DfErrAsBuilt(r.in, lim, pre))
           IN IF r.panic # "" THEN bad' = Append(bad, [line |-> l, exp |-> exp, alt |-> alt]) /\ UNCHANGED <<known, outside>>
              ELSE IF ~DfInDomain(r.in, lim) THEN outside' = outside + 1 /\ UNCHANGED <<bad, known>>
              ELSE IF r.out = exp THEN UNCHANGED <<bad, known, outside>>
              ELSE IF r.out = alt THEN known' = known + 1 /\ UNCHANGED <<bad, outside>>
              ELSE bad' = Append(bad, [line |-> l, exp |-> exp, alt |-> alt]) /\ UNCHANGED <<known, outside>>
Spec == Init /\ [][Next]_<<l, bad, known, outside>>
Done == (l = Len(Recs) + 1) =>
          Serialize(ToJson([consumed |-> l - 1, lines |-> Len(Recs), bad |-> bad, known |-> known, outside |-> outside]) \o "\n", RESULT,
                    [format |-> "TXT", charset |-> "UTF-8", openOptions |-> <<"WRITE", "CREATE", "TRUNCATE_EXISTING">>]).exitValue = 0
=============================================================================
