------------------------------- MODULE Convert -------------------------------
(***************************************************************************)
(* ConvertStack / ConvertCondition (property C12): a value converts iff it *)
(* is a native instance, a user-declared alias of it, or a non-nil pointer *)
(* (any depth) to an alias -- and is not zero-valued; the result is the    *)
(* underlying native instance.  Everything else gives (zero, false).       *)
(* Value classes: [c |-> class, of |-> "stack" | "cond" | "other"]         *)
(***************************************************************************)
EXTENDS Integers, Sequences, TLC, Json, IOUtils
CONSTANTS FAMILY, OUT

Classes == {"native", "alias", "walias", "xalias", "ptr", "ptrptr",          \* convertible
            "zero-native", "zero-alias", "ptr-zero-alias", "nil-ptr-alias", "nil", \* not convertible
            "int", "string", "struct", "slice", "ptr-int", "func"}
Convertible == {"native", "alias", "walias", "xalias", "ptr", "ptrptr"}

Vals == {[c |-> c, of |-> o] : c \in Classes, o \in {"stack", "cond"}}

\* ConvertStack(v) / ConvertCondition(v): [ok, same] -- same = result is the underlying instance of v
ConvertSpec(fn, v) ==
  IF v.c \in Convertible /\ v.of = fn THEN [ok |-> "true", same |-> "true", zero |-> "false"]
  ELSE [ok |-> "false", same |-> "false", zero |-> "true"]

VARIABLES v, fn
Init == v \in Vals /\ fn \in {"stack", "cond"}
Next == UNCHANGED <<v, fn>>
Spec == Init /\ [][Next]_<<v, fn>>
Laws == (ConvertSpec(fn, v).ok = "true") <=> (v.c \in Convertible /\ v.of = fn)
Emit == OUT = "" \/
        Serialize(ToJson([in |-> [t |-> "conv", c |-> v.c, of |-> v.of], arg |-> fn, exp |-> ConvertSpec(fn, v)]) \o "\n",
                  OUT, [format |-> "TXT", charset |-> "UTF-8", openOptions |-> <<"WRITE", "CREATE", "APPEND">>]).exitValue = 0
=============================================================================
