-------------------------------- MODULE Codec --------------------------------
(***************************************************************************)
(* Unmarshal / Marshal (properties C04, C16).                              *)
(*                                                                         *)
(* U-values model the []any trees exchanged by the codec:                  *)
(*   [t |-> "seq", e |-> <<...>>]     a []any                              *)
(*   [t |-> "leaf", ty, v]            a string / int / bool (v = tokens)   *)
(*   [t |-> "nil"]                    an untyped nil                       *)
(*   [t |-> "op", id]                 an Operator (id as in Render.tla;    *)
(*                                    "nilop" = a nil Operator interface)  *)
(*   [t |-> "obj", o]                 anything passed through by identity: *)
(*                                    a ready-made Stack / Condition (o =  *)
(*                                    its Struct), a typed nil pointer, a  *)
(*                                    zero Stack / Condition ...           *)
(* Struct(tree) is the structure a reconstruction is compared on: kinds    *)
(* (upper case), element order, leaf types and values, Condition parts.    *)
(***************************************************************************)
EXTENDS Trees

RECURSIVE Struct(_)
Struct(n) ==
  CASE n.t = "leaf" -> [t |-> "leaf", ty |-> n.ty, v |-> n.v]
    [] n.t = "nil"  -> [t |-> "nil"]
    [] n.t = "stk"  -> [t |-> "stk", k |-> n.k, e |-> [i \in 1..Len(n.e) |-> Struct(n.e[i])]]
    [] n.t = "cnd"  -> [t |-> "cnd", kw |-> n.kw, op |-> n.op, ex |-> Struct(n.ex)]
    [] OTHER -> n

USeq(e)   == [t |-> "seq", e |-> e]
UStr(tok) == [t |-> "leaf", ty |-> "str", v |-> tok]
CondLabel == <<"C", "O", "N", "D", "I", "T", "I", "O", "N">>

RECURSIVE UnmarshalSpec(_)
UnmarshalSpec(n) ==          \* n: a stk node
  USeq(<<UStr(TxWord(n.k, n.fold))>> \o
       [i \in 1..Len(n.e) |->
          LET c == n.e[i] IN
          CASE c.t = "stk" -> UnmarshalSpec(c)
            [] c.t = "cnd" -> USeq(<<UStr(CondLabel), UStr(c.kw), [t |-> "op", id |-> c.op],
                                     IF c.ex.t = "stk" THEN UnmarshalSpec(c.ex)
                                     ELSE IF c.ex.t = "cnd" THEN [t |-> "obj", o |-> Struct(c.ex)]   \* passed through as it is
                                     ELSE Struct(c.ex)>>)
            [] OTHER -> Struct(c)])

-----------------------------------------------------------------------------
(* Marshal                                                                 *)

CdUpper(c) ==
  CASE c = "a" -> "A" [] c = "n" -> "N" [] c = "d" -> "D" [] c = "o" -> "O" [] c = "r" -> "R" [] c = "t" -> "T"
    [] c = "l" -> "L" [] c = "i" -> "I" [] c = "s" -> "S" [] c = "b" -> "B" [] c = "c" -> "C" [] OTHER -> c
CdUp(tok) == [i \in 1..Len(tok) |-> CdUpper(tok[i])]

CdKinds == {"AND", "OR", "NOT", "LIST", "BASIC"}
CdKindOf(tok) == IF \E k \in CdKinds : TxWordUp(k) = CdUp(tok) THEN CHOOSE k \in CdKinds : TxWordUp(k) = CdUp(tok) ELSE "?"

RECURSIVE CdStrip(_)
CdStrip(u) == IF u.t = "seq" /\ Len(u.e) = 1 /\ u.e[1].t = "seq" THEN CdStrip(u.e[1]) ELSE u

CdIsStr(x) == x.t = "leaf" /\ x.ty = "str"

\* Decode(u): u a seq.  Result [r, n, wf]: r in {"stk", "cnd", "err"}; n the decoded
\* structure; wf = the input was well formed, i.e. the outcome is fully determined.
RECURSIVE Decode(_)
Decode(u0) ==
  LET u == CdStrip(u0) IN
  IF u.t # "seq" \/ Len(u.e) = 0 THEN [r |-> "err", n |-> [t |-> "nil"], wf |-> TRUE]
  ELSE IF ~CdIsStr(u.e[1]) THEN [r |-> "err", n |-> [t |-> "nil"], wf |-> TRUE]
  ELSE IF CdUp(u.e[1].v) = CondLabel THEN
       \* a CONDITION row: exactly label, keyword (string), operator, expression
       IF Len(u.e) # 4 \/ ~CdIsStr(u.e[2]) \/ u.e[3].t # "op" \/ ~RdOpValid(u.e[3].id)
       THEN [r |-> "cnd", n |-> [t |-> "nil"], wf |-> FALSE]
       ELSE LET x == u.e[4] IN
            IF x.t = "seq"
            THEN LET d == Decode(x) IN
                 IF d.r = "err" \/ ~d.wf THEN [r |-> "cnd", n |-> [t |-> "nil"], wf |-> FALSE]
                 ELSE [r |-> "cnd", n |-> [t |-> "cnd", kw |-> u.e[2].v, op |-> u.e[3].id, ex |-> d.n], wf |-> TRUE]
            ELSE IF x.t = "nil" \/ (CdIsStr(x) /\ x.v = <<>>) THEN [r |-> "cnd", n |-> [t |-> "nil"], wf |-> FALSE]
            ELSE [r |-> "cnd", n |-> [t |-> "cnd", kw |-> u.e[2].v, op |-> u.e[3].id,
                                       ex |-> IF x.t = "obj" THEN x.o ELSE x], wf |-> x.t \in {"leaf", "obj"}]
  ELSE LET k    == CdKindOf(u.e[1].v)
           ents == IF k = "?" THEN u.e ELSE Tail(u.e)         \* unknown label: BASIC holding ALL entries
           kids == [i \in 1..Len(ents) |->
                      IF ents[i].t = "seq" THEN Decode(ents[i])
                      ELSE [r |-> "val", n |-> IF ents[i].t = "obj" THEN ents[i].o ELSE ents[i], wf |-> ents[i].t # "op"]]
       IN [r |-> "stk",
           n |-> [t |-> "stk", k |-> IF k = "?" THEN "BASIC" ELSE k,
                  e |-> [i \in 1..Len(kids) |-> kids[i].n]],
           wf |-> \A i \in 1..Len(kids) : kids[i].wf /\ kids[i].r # "err"]

\* Marshal on an uninitialised receiver
MarshalZero(u) ==
  LET d == Decode(u) IN
  \* "wild" names the fields the specification leaves open for malformed input
  IF ~d.wf THEN [total |-> "ok", contract |-> "ok", err |-> "nil", init |-> "true", struct |-> [t |-> "nil"], wild |-> {"err", "init", "struct"}]
  ELSE IF d.r = "stk" THEN [total |-> "ok", contract |-> "ok", err |-> "nil", init |-> "true", struct |-> d.n, wild |-> {}]
  ELSE [total |-> "ok", contract |-> "ok", err |-> "err", init |-> "false", struct |-> [t |-> "nil"], wild |-> {}]

\* Marshal on an initialised receiver AND[r0]: gains the decoded value as one element
R0 == [t |-> "leaf", ty |-> "str", v |-> <<"r", "0">>]
MarshalLive(u) ==
  LET d == Decode(u) IN
  IF ~d.wf THEN [total |-> "ok", contract |-> "ok", err |-> "nil", init |-> "true", struct |-> [t |-> "nil"], wild |-> {"err", "struct"}]
  ELSE IF d.r = "err" THEN [total |-> "ok", contract |-> "ok", err |-> "err", init |-> "true",
                            struct |-> [t |-> "stk", k |-> "AND", e |-> <<R0>>], wild |-> {}]
  ELSE [total |-> "ok", contract |-> "ok", err |-> "nil", init |-> "true",
        struct |-> [t |-> "stk", k |-> "AND", e |-> <<R0, d.n>>], wild |-> {}]

MarshalFields == {"total", "contract", "err", "init", "struct"}
\* the JSON form handed to the harness: open fields carry "*"
MarshalJ(x) == [f \in MarshalFields |-> IF f \in x.wild THEN "*" ELSE x[f]]
MarshalAccepts(x, out) == \A f \in MarshalFields \ x.wild : x[f] = out[f]

\* C04 on the specification itself: decoding what Unmarshal produced gives the tree back
RoundTrip(n) == LET d == Decode(UnmarshalSpec(n)) IN d.r = "stk" /\ d.wf /\ d.n = Struct(n)
=============================================================================
