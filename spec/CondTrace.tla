------------------------------ MODULE CondTrace ------------------------------
(***************************************************************************)
(* Trace validation for Conditions: histories of Cond / Init / setters     *)
(* recorded from the real package are accepted iff each call is a step of  *)
(* CondCore!CStep with the recorded observables (same protocol as          *)
(* StackageTrace.tla).                                                     *)
(***************************************************************************)
EXTENDS CondCore, Json, IOUtils

CONSTANTS TRACEFILE, RESULT, FIELDS

Trace == ndJsonDeserialize(TRACEFILE)

VARIABLES l, cur, bad, skip
ctvars == <<l, cur, bad, skip>>

CFromJ(j) == [j EXCEPT !.opts = LoRange(j.opts), !.lvl = LoRange(j.lvl)]
CObsDiff(o, rec) == {f \in FIELDS : o[f] # rec[f]}

CTInit == l = 1 /\ cur = CDead /\ bad = <<>> /\ skip = TRUE

CTNext ==
  /\ l <= Len(Trace)
  /\ l' = l + 1
  /\ LET e == Trace[l] IN
     IF e.ev = "reset" THEN cur' = CFromJ(e.st) /\ skip' = FALSE /\ bad' = bad
     ELSE IF skip THEN UNCHANGED <<cur, bad, skip>>
     ELSE LET r == CStep(cur, e.c) IN
          IF r.ret = e.ret /\ CObsDiff(CObs(r.s), e.obs) = {}
          THEN cur' = r.s /\ UNCHANGED <<bad, skip>>
          ELSE /\ bad' = Append(bad, [line |-> l, op |-> e.c.op, retok |-> (r.ret = e.ret), expret |-> r.ret,
                                      exp |-> [f \in CObsDiff(CObs(r.s), e.obs) |-> CObs(r.s)[f]]])
               /\ skip' = TRUE /\ UNCHANGED cur

CTSpec == CTInit /\ [][CTNext]_ctvars

Done == (l = Len(Trace) + 1) =>
          Serialize(ToJson([consumed |-> l - 1, lines |-> Len(Trace), bad |-> bad]) \o "\n", RESULT,
                    [format |-> "TXT", charset |-> "UTF-8",
                     openOptions |-> <<"WRITE", "CREATE", "TRUNCATE_EXISTING">>]).exitValue = 0
=============================================================================
