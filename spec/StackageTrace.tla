---------------------------- MODULE StackageTrace ----------------------------
(***************************************************************************)
(* Trace validation (code -> spec): a file of histories recorded from the  *)
(* real go-stackage package is accepted iff every recorded call is a step  *)
(* of ListOps!Step from the current abstract state with exactly the        *)
(* recorded return values, and the recorded observables equal the          *)
(* observables of the successor state.  Many histories are concatenated;   *)
(* a "reset" line starts a new one from a recorded initial configuration.  *)
(* A mismatch does not stop the run: the line is recorded in bad, the rest *)
(* of that history is skipped, and validation resumes at the next reset.   *)
(***************************************************************************)
EXTENDS ListOps, Json, IOUtils

CONSTANTS TRACEFILE,   \* ndjson file recorded by the harness
          RESULT,      \* file receiving the verdict as JSON
          FIELDS       \* observables compared (the property's own)

Trace == ndJsonDeserialize(TRACEFILE)

VARIABLES l, cur, dcur, bad, skip

tvars == <<l, cur, dcur, bad, skip>>

FromJ(j) == [j EXCEPT !.opts = LoRange(j.opts), !.acc = LoRange(j.acc), !.lvl = LoRange(j.lvl)]

ObsEq(o, rec) == \A f \in FIELDS : o[f] = rec[f]
ObsDiff(o, rec) == {f \in FIELDS : o[f] # rec[f]}

TInit == l = 1 /\ cur = DeadState /\ dcur = DeadState /\ bad = <<>> /\ skip = TRUE

Expected(e) ==
  \* the spec's prediction for a recorded call: [ret, s, d]
  IF e.c.op = "Transfer"
  THEN LET r == IF e.c.dir = "fwd" THEN Step2(cur, dcur, e.c.form) ELSE Step2(dcur, cur, e.c.form)
       IN [ret |-> r.ret, s |-> IF e.c.dir = "fwd" THEN r.src ELSE r.dst,
           d |-> IF e.c.dir = "fwd" THEN r.dst ELSE r.src]
  ELSE IF e.on = "dst"
  THEN LET r == Step(dcur, e.c) IN [ret |-> r.ret, s |-> cur, d |-> r.s]
  ELSE LET r == Step(cur, e.c) IN [ret |-> r.ret, s |-> r.s, d |-> dcur]

TNext ==
  /\ l <= Len(Trace)
  /\ l' = l + 1
  /\ LET e == Trace[l] IN
     IF e.ev = "reset"
     THEN /\ cur' = FromJ(e.st) /\ dcur' = FromJ(e.dst) /\ skip' = FALSE /\ bad' = bad
     ELSE IF skip THEN UNCHANGED <<cur, dcur, bad, skip>>
     ELSE LET x == Expected(e) IN
          IF x.ret = e.ret /\ ObsEq(Obs(x.s), e.obs) /\ ObsEq(Obs(x.d), e.dobs)
          THEN cur' = x.s /\ dcur' = x.d /\ UNCHANGED <<bad, skip>>
          ELSE /\ bad' = Append(bad, [line |-> l, op |-> e.c.op,
                                      retok |-> (x.ret = e.ret), expret |-> x.ret,
                                      exp |-> [f \in ObsDiff(Obs(x.s), e.obs) |-> Obs(x.s)[f]],
                                      dexp |-> [f \in ObsDiff(Obs(x.d), e.dobs) |-> Obs(x.d)[f]]])
               /\ skip' = TRUE /\ UNCHANGED <<cur, dcur>>

TSpec == TInit /\ [][TNext]_tvars

\* written once, in the unique final state: every line has been consumed
Done == (l = Len(Trace) + 1) =>
          Serialize(ToJson([consumed |-> l - 1, lines |-> Len(Trace), bad |-> bad]) \o "\n", RESULT,
                    [format |-> "TXT", charset |-> "UTF-8",
                     openOptions |-> <<"WRITE", "CREATE", "TRUNCATE_EXISTING">>]).exitValue = 0
=============================================================================
