------------------------------- MODULE Reveal -------------------------------
(***************************************************************************)
(* Reveal (property C20): the only change Reveal may make is to replace a  *)
(* non-parenthetical, non-NOT Stack that has exactly one non-parenthetical *)
(* Stack or Condition child by that child.  The specification is the SET   *)
(* of trees reachable by such steps; the real result must be a member.     *)
(* Everything is defined on the structural Shape of a tree.                *)
(***************************************************************************)
EXTENDS Trees

RvIsWrapper(s) ==
  /\ s.t = "stk" /\ ~s.paren /\ s.k # "NOT" /\ Len(s.e) = 1
  /\ LET c == s.e[1] IN c.t \in {"stk", "cnd"} /\ ~c.paren      \* a parenthetical child -- Stack or Condition -- protects its wrapper

\* all trees one allowed unwrap away from n (n is never replaced itself)
RECURSIVE RvUnwrap1(_)
RvUnwrap1(n) ==
  CASE n.t = "stk" ->
         UNION {   (IF RvIsWrapper(n.e[i]) THEN {[n EXCEPT !.e[i] = n.e[i].e[1]]} ELSE {})
              \cup {[n EXCEPT !.e[i] = c] : c \in RvUnwrap1(n.e[i])} : i \in 1..Len(n.e)}
    [] n.t = "cnd" -> {[n EXCEPT !.ex = x] : x \in RvUnwrap1(n.ex)}
    [] OTHER -> {}

RECURSIVE RvClose(_, _)
RvClose(done, frontier) ==
  IF frontier = {} THEN done
  ELSE LET next == UNION {RvUnwrap1(x) : x \in frontier} IN RvClose(done \cup frontier, next \ (done \cup frontier))

Reach(n) == RvClose({}, {n})

\* depth-first sequence of leaves, with each Condition's keyword and operator
RECURSIVE RvLeaves(_)
RvLeaves(n) ==
  CASE n.t = "leaf" -> <<n.v>>
    [] n.t = "nil"  -> <<<<"nil">>>>
    [] n.t = "stk"  -> TxFlat([i \in 1..Len(n.e) |-> RvLeaves(n.e[i])])
    [] n.t = "cnd"  -> <<<<"cnd">> \o n.kw \o <<n.op>>>> \o RvLeaves(n.ex)

RvMax(S) == IF S = {} THEN 0 ELSE CHOOSE x \in S : \A y \in S : y <= x
RECURSIVE RvDepth(_)
RvDepth(n) ==
  CASE n.t = "stk" -> 1 + RvMax({RvDepth(n.e[i]) : i \in 1..Len(n.e)})
    [] n.t = "cnd" -> RvDepth(n.ex)
    [] OTHER -> 0

\* parenthetical and NOT stacks, in depth-first order (they must survive)
RECURSIVE RvKeepers(_)
RvKeepers(n) ==
  CASE n.t = "stk" -> (IF n.paren \/ n.k = "NOT" THEN <<[k |-> n.k, paren |-> n.paren]>> ELSE <<>>)
                      \o TxFlat([i \in 1..Len(n.e) |-> RvKeepers(n.e[i])])
    [] n.t = "cnd" -> RvKeepers(n.ex)
    [] OTHER -> <<>>

\* normal form: unwrap everything that may be unwrapped (bottom-up)
RECURSIVE RvFull(_)
RvFull(n) ==
  CASE n.t = "stk" ->
         LET kids == [i \in 1..Len(n.e) |-> RvFull(n.e[i])]
         IN [n EXCEPT !.e = [i \in 1..Len(kids) |-> IF RvIsWrapper(kids[i]) THEN kids[i].e[1] ELSE kids[i]]]
    [] n.t = "cnd" -> [n EXCEPT !.ex = RvFull(n.ex)]
    [] OTHER -> n

RvLaws(n) ==
  \A r \in Reach(n) :
     /\ RvLeaves(r) = RvLeaves(n)
     /\ RvDepth(r) <= RvDepth(n)
     /\ RvKeepers(r) = RvKeepers(n)
     /\ RvFull(r) = RvFull(n)
     /\ r.k = n.k /\ r.paren = n.paren          \* the receiver itself is never replaced
=============================================================================
