------------------------------- MODULE Order -------------------------------
(***************************************************************************)
(* The default ordering of Stack.Less (sort.Interface; properties C11,     *)
(* C09): Less(i, j) compares the TEXT of the two addressed elements byte   *)
(* by byte.  The text of an element is: a string itself; a bool / number   *)
(* its decimal text; a value with a String method (a nested Stack or       *)
(* Condition in native form, or an alias that declares String) what that   *)
(* method returns; anything else has no text.  An addressed element that   *)
(* exists but has no text (or the empty text) makes Less false; an address *)
(* that finds nothing (out of range, a nil element) counts as the empty    *)
(* text, which sorts before everything.                                    *)
(*                                                                         *)
(* Token order = byte order of the UTF-8 encodings (UTF-8 is prefix free   *)
(* and order preserving, so comparing token by token is comparing byte by  *)
(* byte).                                                                  *)
(***************************************************************************)
EXTENDS Traverse

\* TokOrder / TxRank / TxLess live in ListOps.tla (shared with the list model)

XStackText == <<"<", "<", "c", "u", "s", "t", "o", "m", "SP", "s", "t", "a", "c", "k", "SP", "s", "t", "r", "i", "n", "g", "e", "r", ">", ">">>
XCondText  == <<"<", "<", "c", "u", "s", "t", "o", "m", "SP", "c", "o", "n", "d", "i", "t", "i", "o", "n", "SP", "s", "t", "r", "i", "n", "g", "e", "r", ">", ">">>

\* the text Less sees for one element
ElemText(x) ==
  CASE x.t = "leaf" -> x.v
    [] x.t = "stk"  -> IF x.form \in {"native", "walias"} THEN RenderStack(x) ELSE IF x.form = "xalias" THEN XStackText ELSE <<>>
    [] x.t = "cnd"  -> IF x.form \in {"native", "walias"} THEN RenderCond(x) ELSE IF x.form = "xalias" THEN XCondText ELSE <<>>
    [] OTHER        -> <<>>

Addressed(n, i) == LET r == Lookup(TvSlots(n), TvOpts(n), i) IN
                   IF r.ok THEN [found |-> TRUE, s |-> ElemText(n.e[r.pos])] ELSE [found |-> FALSE, s |-> <<>>]

LessSpec(n, i, j) ==
  LET a == Addressed(n, i)
      b == Addressed(n, j)
  IN IF (a.found /\ a.s = <<>>) \/ (b.found /\ b.s = <<>>) THEN FALSE ELSE TxLess(a.s, b.s)

\* the ordering is a strict weak order on texts: irreflexive, asymmetric, transitive
OrderLaws(S) == /\ \A a \in S : ~TxLess(a, a)
                /\ \A a, b \in S : ~(TxLess(a, b) /\ TxLess(b, a))
                /\ \A a, b \in S : a # b => (TxLess(a, b) \/ TxLess(b, a))
                /\ \A a, b, c \in S : (TxLess(a, b) /\ TxLess(b, c)) => TxLess(a, c)
=============================================================================
