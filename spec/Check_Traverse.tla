--------------------------- MODULE Check_Traverse ---------------------------
(* code -> spec for Traverse: recorded (tree, paths, results) lines.        *)
EXTENDS Traverse, Json, IOUtils
CONSTANTS CASEFILE, RESULT
Recs == ndJsonDeserialize(CASEFILE)
VARIABLES l, bad
Init == l = 1 /\ bad = <<>>
Exp(r) == [i \in 1..Len(r.arg) |-> LET x == TraverseSpec(r.in, r.arg[i], <<>>) IN [ok |-> x.ok, addr |-> x.addr, note |-> ""]]
Next == /\ l <= Len(Recs) /\ l' = l + 1
        /\ LET r == Recs[l] IN
           bad' = IF r.panic = "" /\ Exp(r) = r.out THEN bad ELSE Append(bad, [line |-> l, exp |-> Exp(r)])
Spec == Init /\ [][Next]_<<l, bad>>
Done == (l = Len(Recs) + 1) =>
          Serialize(ToJson([consumed |-> l - 1, lines |-> Len(Recs), bad |-> bad]) \o "\n", RESULT,
                    [format |-> "TXT", charset |-> "UTF-8", openOptions |-> <<"WRITE", "CREATE", "TRUNCATE_EXISTING">>]).exitValue = 0
=============================================================================
