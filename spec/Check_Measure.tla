---------------------------- MODULE Check_Measure ----------------------------
(* code -> spec: Len / IsNesting / IsEmpty of every Stack and Condition node *)
(* of random trees (nested nodes in every alias form), recorded from the     *)
(* real package, must equal Measure(tree).                                   *)
EXTENDS Trees, Json, IOUtils
CONSTANTS CASEFILE, RESULT
Recs == ndJsonDeserialize(CASEFILE)
VARIABLES l, bad
Init == l = 1 /\ bad = <<>>
Next == /\ l <= Len(Recs) /\ l' = l + 1
        /\ LET r == Recs[l] exp == Measure(r.in) IN
           bad' = IF r.panic = "" /\ exp = r.out THEN bad ELSE Append(bad, [line |-> l, exp |-> exp])
Spec == Init /\ [][Next]_<<l, bad>>
Done == (l = Len(Recs) + 1) =>
          Serialize(ToJson([consumed |-> l - 1, lines |-> Len(Recs), bad |-> bad]) \o "\n", RESULT,
                    [format |-> "TXT", charset |-> "UTF-8", openOptions |-> <<"WRITE", "CREATE", "TRUNCATE_EXISTING">>]).exitValue = 0
=============================================================================
