------------------------------- MODULE CondMC -------------------------------
(***************************************************************************)
(* The Condition as a state machine: exhaustive exploration of setter      *)
(* histories over accepted and rejected arguments, the C06 / C13 / C18 /   *)
(* C09 / C14 properties as step invariants, and transition-table emission  *)
(* (same line format as Stackage.tla).                                     *)
(***************************************************************************)
EXTENDS CondCore, Json, IOUtils

CONSTANTS KwArgs, OpArgs, ExArgs, CFams, COptFlags, OUT

VARIABLE st
cvars == <<st>>

RECURSIVE CSetToSeq(_)
CSetToSeq(S) == IF S = {} THEN <<>> ELSE LET x == CHOOSE y \in S : TRUE IN <<x>> \o CSetToSeq(S \ {x})

KwRec(k) == CASE k = "k"   -> [form |-> "str", v |-> "k"]
              [] k = "kw2" -> [form |-> "str", v |-> "kw2"]
              [] k = ""    -> [form |-> "str", v |-> ""]
              [] k = "stringer" -> [form |-> "stringer", v |-> "sv"]
              [] k = "nil" -> [form |-> "nil", v |-> ""]
              [] OTHER     -> [form |-> "int", v |-> ""]

CLvArg(bits, form) == [bits |-> bits, none |-> FALSE, all |-> FALSE, form |-> form]
CLvArgs == {CLvArg(<<2>>, "name"), CLvArg(<<5>>, "const"), CLvArg(<<2, 7>>, "int"),
            [bits |-> <<>>, none |-> TRUE, all |-> FALSE, form |-> "name"], [bits |-> <<>>, none |-> FALSE, all |-> TRUE, form |-> "int"]}

CCalls(s) ==
       (IF "set" \in CFams THEN
            {[op |-> "SetKeyword", k |-> KwRec(k)] : k \in KwArgs}
       \cup {[op |-> "SetOperator", o |-> o] : o \in OpArgs}
       \cup {[op |-> "SetExpression", x |-> x] : x \in ExArgs} ELSE {})
  \cup (IF "cond" \in CFams /\ s \in {CDead, CFresh} THEN   \* the constructor ignores the receiver
            {[op |-> "Cond", k |-> KwRec(k), o |-> o, x |-> x] : k \in KwArgs, o \in OpArgs, x \in ExArgs}
       \cup {[op |-> "Init"]} ELSE {})
  \cup (IF "opts" \in CFams
        THEN {[op |-> "SetOpt", f |-> f, m |-> m, dep |-> FALSE] : f \in COptFlags, m \in {"on", "off", "toggle"}}
             \cup {[op |-> "SetOpt", f |-> f, m |-> m, dep |-> TRUE] : f \in COptFlags \ {"ronly"}, m \in {"on", "off", "toggle"}}
        ELSE {})
  \cup (IF "life" \in CFams THEN {[op |-> "Free"], [op |-> "Init"], [op |-> "SetErr", on |-> TRUE], [op |-> "SetErr", on |-> FALSE]} ELSE {})
  \cup (IF "settings" \in CFams THEN
            {[op |-> "SetID", v |-> v] : v \in {"", "x"}} \cup {[op |-> "SetCategory", v |-> v] : v \in {"", "c"}}
       \cup {[op |-> "SetEncap", pairs |-> p] : p \in {<<>>, <<<<"\"">>>>, <<<<"<", ">">>>>, <<<<"<", ">">>, <<"\"">>>>, <<<<"\"", ">">>>>}} ELSE {})
  \cup (IF "loglevel" \in CFams THEN
            {[op |-> "SetLogLevel", args |-> a] : a \in [1..1 -> CLvArgs] \cup {<<CLvArg(<<2>>, "name"), x>> : x \in CLvArgs}}
       \cup {[op |-> "UnsetLogLevel", args |-> <<x>>] : x \in {y \in CLvArgs : ~y.all}} ELSE {})
  \cup (IF "closures" \in CFams THEN
            {[op |-> "SetValidityPolicy", mode |-> m] : m \in {"none", "ok", "bad"}}
       \cup {[op |-> o, on |-> b] : o \in {"SetPresentationPolicy", "SetEqualityPolicy", "SetUnmarshaler", "SetEvaluator"}, b \in BOOLEAN} ELSE {})

CTrans(s) == {LET r == CStep(s, c) IN [c |-> c, on |-> "st", ret |-> r.ret, s |-> r.s] : c \in CCalls(s)}

CInit == st \in {CDead, CFresh}
CNext == \E t \in CTrans(st) : st' = t.s
CSpec == CInit /\ [][CNext]_cvars

-----------------------------------------------------------------------------
\* C06: a rejected argument leaves (kw, op, ex) unchanged; an accepted one is stored
Holds(s, t) ==
  /\ (t.c.op = "SetOperator" =>
        IF s.live /\ ~CRO(s) /\ OpAccepted(t.c.o) THEN t.s.op = t.c.o /\ [t.s EXCEPT !.op = s.op] = s ELSE t.s = s)
  /\ (t.c.op = "SetExpression" =>
        IF s.live /\ ~CRO(s) /\ t.c.x \notin {"nil", "s:"} /\ ~(ExprIsStack(t.c.x) /\ "nnest" \in s.opts) /\ s.err = "none"
        THEN t.s.ex = t.c.x /\ [t.s EXCEPT !.ex = s.ex] = s ELSE t.s = s)
  /\ (t.c.op = "SetKeyword" =>
        IF s.live /\ ~CRO(s) /\ t.c.k.form \in {"str", "stringer"} THEN t.s.kw = t.c.k.v ELSE t.s = s)

\* C06: validity gates rendering
ValidGatesString(s) == LET o == CObs(s) IN (o.str = "") <=> (o.valid = "err")
ValidDef(s) == (s.live /\ s.vpol = "none") =>
                 (ValidOK(s) <=> (s.kw # "" /\ s.op # "none" /\ (s.op \in Builtin \/ s.op \in {"user", "userB", "eqB", "emptyctx"}) /\ s.ex # "nil"))

\* C09: read-only frame for Conditions
CROFrame(s, t) ==
  (s.live /\ CRO(s)) =>
     \/ t.c.op \in {"Init", "Cond"}
     \/ (t.c.op = "SetErr" /\ [t.s EXCEPT !.err = s.err] = s)
     \/ (t.c.op = "SetOpt" /\ t.c.f = "ronly" /\ [t.s EXCEPT !.opts = s.opts] = s)
     \/ (t.s = s /\ (t.c.op = "Free" => t.ret = <<"err">>))

\* C13: no-nesting on a Condition refuses a Stack expression, switching never touches ex
CNoNest(s, t) ==
  /\ (t.c.op = "SetOpt" => t.s.ex = s.ex)
  /\ ((t.c.op = "SetExpression" /\ "nnest" \in s.opts /\ ExprIsStack(t.c.x)) => t.s = s)

\* C18: a switch changes exactly its own flag
COptInd(s, t) ==
  t.c.op = "SetOpt" => (t.s.opts \ {t.c.f} = s.opts \ {t.c.f} /\ [t.s EXCEPT !.opts = {}] = [s EXCEPT !.opts = {}])

\* C17: a dead Condition stays dead except through Init (and Cond, a constructor)
CInert(s, t) == (~s.live /\ t.c.op \notin {"Init", "Cond"}) => t.s = s

\* C14 on Conditions: an installed closure decides what its method returns, removing it restores the built-in behaviour,
\* and a closure setter touches nothing but its own slot
CClosures(s, t) ==
  LET NoCl(x) == [x EXCEPT !.ppol = FALSE, !.epol = FALSE, !.upol = FALSE, !.evpol = FALSE] IN
  (t.c.op \in {"SetPresentationPolicy", "SetEqualityPolicy", "SetUnmarshaler", "SetEvaluator"} /\ s.live /\ ~CRO(s)) =>
     /\ NoCl(t.s) = NoCl(s)
     /\ LET o == CObs(t.s) IN
        /\ (t.c.op = "SetEqualityPolicy" => o.eqsrc = IF t.c.on THEN "closure" ELSE "builtin")
        /\ (t.c.op = "SetUnmarshaler" => o.umsrc = IF t.c.on THEN "closure" ELSE "builtin")
        /\ (t.c.op = "SetEvaluator" => o.evsrc = IF t.c.on THEN "closure" ELSE "error")

CStepProps ==
  /\ ValidGatesString(st) /\ ValidDef(st)
  /\ \A t \in CTrans(st) : Holds(st, t) /\ CROFrame(st, t) /\ CNoNest(st, t) /\ COptInd(st, t) /\ CInert(st, t) /\ CClosures(st, t)

CTypeOK == st.live \in BOOLEAN /\ st.opts \subseteq CFlags /\ st.err \in {"none", "set"}

-----------------------------------------------------------------------------
CJState(s) == [s EXCEPT !.opts = CSetToSeq(s.opts), !.lvl = CSetToSeq(s.lvl)]
CDelta(a, b) == LET J == CJState(b) IN [f \in {f \in DOMAIN a : a[f] # b[f]} |-> J[f]]

CEmit == OUT = "" \/
         Serialize(ToJson([st |-> CJState(st), obs |-> CObs(st), init |-> (st \in {CDead, CFresh}),
                           tr |-> {[c |-> t.c, on |-> t.on, ret |-> t.ret, ib |-> TRUE, d |-> CDelta(st, t.s)] : t \in CTrans(st)}])
                   \o "\n", OUT,
                   [format |-> "TXT", charset |-> "UTF-8", openOptions |-> <<"WRITE", "CREATE", "APPEND">>]).exitValue = 0
=============================================================================
