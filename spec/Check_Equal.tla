----------------------------- MODULE Check_Equal -----------------------------
(* code -> spec for IsEqual: recorded verdicts of random pairs (a tree and  *)
(* a copy or a randomly mutated copy, built independently).                 *)
EXTENDS Equal, Json, IOUtils
CONSTANTS CASEFILE, RESULT
Recs == ndJsonDeserialize(CASEFILE)
VARIABLES l, bad
Init == l = 1 /\ bad = <<>>
Exp(r) == IF Eq(r.in.a, r.in.b) THEN <<"nil", "nil">> ELSE <<"err", "err">>
Next == /\ l <= Len(Recs) /\ l' = l + 1
        /\ LET r == Recs[l] IN bad' = IF r.panic = "" /\ r.out = Exp(r) THEN bad ELSE Append(bad, [line |-> l, exp |-> Exp(r)])
Spec == Init /\ [][Next]_<<l, bad>>
Done == (l = Len(Recs) + 1) =>
          Serialize(ToJson([consumed |-> l - 1, lines |-> Len(Recs), bad |-> bad]) \o "\n", RESULT,
                    [format |-> "TXT", charset |-> "UTF-8", openOptions |-> <<"WRITE", "CREATE", "TRUNCATE_EXISTING">>]).exitValue = 0
=============================================================================
