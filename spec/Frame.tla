-------------------------------- MODULE Frame --------------------------------
(***************************************************************************)
(* Frame rules over the WHOLE exported method alphabet of Stack and        *)
(* Condition.  The harness enumerates the methods by reflection, calls     *)
(* each with synthesised arguments and records plain facts per call        *)
(* (receiver alive / read-only / error before and after, a hash of the     *)
(* deep snapshot of everything else before and after, whether the call     *)
(* panicked, which results were non-zero).  This module decides, per       *)
(* recorded event, whether the step is allowed:                            *)
(*   ReadOnlyRule  (C09)  a read-only instance changes only through the    *)
(*                        documented exceptions;                           *)
(*   InertRule     (C17)  zero / freed instances stay dead, return zero    *)
(*                        results, never panic;                            *)
(*   QueryRule     (C11)  declared queries change nothing and repeat;      *)
(*   AwkwardRule   (C08)  no argument value makes a method panic or        *)
(*                        leaves the receiver unusable.                    *)
(* The rules are generic in the method name, so a method added later is    *)
(* covered by ReadOnlyRule / InertRule / AwkwardRule without being         *)
(* modelled; it is listed in the result as "unmodelled".                   *)
(***************************************************************************)
EXTENDS Integers, Sequences, FiniteSets, TLC, Json, IOUtils

CONSTANTS EVENTFILE, RESULT

Events == ndJsonDeserialize(EVENTFILE)

\* documented exceptions to the read-only frame
ROSwitch == {"SetReadOnly", "ReadOnly"}

\* methods whose purpose is to initialise a dead instance
InitMethods == {"Marshal", "Init"}

\* not-initialised results that are documented sentinels rather than Go zero
\* values: derived negations (IsZero, IsEmpty, IsPadded) and labels
AllowedNonZero == {"IsZero", "IsEmpty", "IsPadded", "Kind", "ID", "Addr"}
ErrAllowed == {"Valid", "IsEqual", "Marshal"}

\* the declared query alphabet (C11); everything else known is a mutator
Queries ==
  {"String", "Index", "Front", "Back", "Traverse", "Len", "Cap", "Avail", "Kind", "Valid", "IsEqual",
   "Unmarshal", "Less", "IsEmpty", "IsZero", "IsInit", "IsFIFO", "IsFull", "CapReached", "IsNesting",
   "IsParen", "IsPadded", "IsReadOnly", "IsEncap", "CanNest", "CanMutex", "Err", "ID", "Category",
   "Delimiter", "LogLevels", "Logger", "Addr", "Auxiliary", "Keyword", "Operator", "Expression",
   "Evaluate"}

Mutators ==
  {"Push", "Pop", "Insert", "Remove", "Replace", "Swap", "Reverse", "Reset", "Defrag", "Reveal",
   "Transfer", "Free", "Marshal", "Init", "SetFIFO", "SetMutex", "Mutex", "SetErr", "SetID",
   "SetCategory", "SetDelimiter", "SetSymbol", "Symbol", "SetEncap", "Encap", "SetAuxiliary",
   "SetLogger", "SetLogLevel", "UnsetLogLevel", "SetLessFunc", "SetPushPolicy",
   "SetPresentationPolicy", "SetValidityPolicy", "SetEqualityPolicy", "SetMarshaler",
   "SetUnmarshaler", "SetEvaluator", "SetKeyword", "SetOperator", "SetExpression",
   "SetParen", "Paren", "SetFold", "Fold", "SetNoPadding", "NoPadding", "SetLeadOnce", "LeadOnce",
   "SetNegativeIndices", "NegativeIndices", "SetForwardIndices", "ForwardIndices",
   "SetNoNesting", "NoNesting", "SetReadOnly", "ReadOnly"}

Known == Queries \cup Mutators \cup {"ProbeMutable"}

Same(e) == e.post = e.pre

ReadOnlyRule(e) ==
  (e.mode \in {"ronly", "ronly-seq"} /\ e.prelive = "true" /\ e.prero = "true") =>
    /\ e.panic = ""
    /\ IF e.method \in ROSwitch
         THEN Same(e) /\ e.posterr = e.preerr /\ e.postlive = "true"
       ELSE IF e.method = "SetErr"
         THEN Same(e) /\ e.postro = "true" /\ e.postlive = "true"
       ELSE IF e.method = "Init" /\ e.typ = "Condition"
         THEN e.twin = "same"         \* Init REPLACES the instance behind this handle: every other holder still sees the old one, untouched
       ELSE /\ Same(e) /\ e.postro = "true" /\ e.posterr = e.preerr /\ e.postlive = "true" /\ e.twin = "same"
            /\ (e.method = "Free" => e.errres = "true")

\* a read-only instance handed to ANOTHER instance's method as an argument
\* (Transfer destination, element, expression, comparand), or nested inside a writable
\* parent whose own methods recurse (Defrag, Reveal, ...), does not change either
ReadOnlyArgRule(e) ==
  (e.mode \in {"ronly-arg", "ronly-nested"}) =>
    (e.panic = "" /\ Same(e) /\ e.postro = "true" /\ e.posterr = e.preerr /\ e.postlive = "true")

\* after the flag was cleared, the instance is mutable again
ProbeRule(e) == (e.mode = "probe") => e.health = "ok"

InertRule(e) ==
  (e.mode = "dead" /\ e.prelive = "false") =>
    /\ e.panic = ""
    /\ (e.method \notin InitMethods => (e.postlive = "false" /\ Same(e)))
    /\ (e.method \notin (AllowedNonZero \cup InitMethods) => e.nonzero = <<>>)
    /\ (e.method \notin (ErrAllowed \cup InitMethods) => e.errres = "false")
    /\ (e.method \in {"Valid", "IsEqual"} => e.errres = "true")
    /\ e.twin \in {"same", "changed"}      \* these two REPORT that the receiver is not initialised, whatever the argument
    /\ e.health = "ok"

\* Free zeroes the handle unless the instance is read-only (then: an error)
FreeRule(e) ==
  (e.mode = "free") =>
    /\ e.panic = ""
    /\ e.twin \in {"same", "changed"}        \* other handles of the instance (copies, a parent's slot) stay usable: no panic when they are looked at
    /\ (e.prero = "false" => (e.postlive = "false" /\ e.errres = "false"))
    /\ (e.prero = "true"  => (e.postlive = "true" /\ e.errres = "true" /\ Same(e)))

\* an Init()-only Condition is initialised but empty: nothing may panic on it
InitOnlyRule(e) == (e.mode = "initonly") => (e.panic = "" /\ e.health = "ok")

\* package-level functions (constructors, converters, default-logger setters) and the
\* Auxiliary map type: any argument, nil maps included -- no panic, results usable
PkgRule(e) == (e.mode = "pkg") => (e.panic = "" /\ e.health = "ok")

QueryRule(e) ==
  (e.mode = "query" /\ e.method \in Queries) =>
    /\ e.panic = ""
    /\ Same(e) /\ e.postro = e.prero /\ e.posterr = e.preerr /\ e.postlive = e.prelive
    /\ e.again = "same"

AwkwardRule(e) ==
  (e.mode = "awkward") => (e.panic = "" /\ e.health = "ok" /\ (e.method # "Free" => e.postlive = e.prelive))

Rules(e) ==
  (IF ReadOnlyRule(e) THEN {} ELSE {"ReadOnlyRule"}) \cup
  (IF ReadOnlyArgRule(e) THEN {} ELSE {"ReadOnlyArgRule"}) \cup
  (IF ProbeRule(e) THEN {} ELSE {"ProbeRule"}) \cup
  (IF InertRule(e) THEN {} ELSE {"InertRule"}) \cup
  (IF FreeRule(e) THEN {} ELSE {"FreeRule"}) \cup
  (IF InitOnlyRule(e) THEN {} ELSE {"InitOnlyRule"}) \cup
  (IF PkgRule(e) THEN {} ELSE {"PkgRule"}) \cup
  (IF QueryRule(e) THEN {} ELSE {"QueryRule"}) \cup
  (IF AwkwardRule(e) THEN {} ELSE {"AwkwardRule"})

VARIABLES l, bad, unmodelled

fvars == <<l, bad, unmodelled>>

FInit == l = 1 /\ bad = <<>> /\ unmodelled = {}

FNext ==
  /\ l <= Len(Events)
  /\ l' = l + 1
  /\ LET e == Events[l] IN
     IF e.ev # "call" THEN UNCHANGED <<bad, unmodelled>>
     ELSE /\ bad' = IF Rules(e) = {} THEN bad
                    ELSE Append(bad, [line |-> l, rules |-> Rules(e), method |-> e.method, typ |-> e.typ])
          /\ unmodelled' = IF e.method \in Known \/ e.mode \in {"ronly-arg", "ronly-nested", "pkg"} THEN unmodelled ELSE unmodelled \cup {e.typ \o "." \o e.method}

FSpec == FInit /\ [][FNext]_fvars

Done == (l = Len(Events) + 1) =>
          Serialize(ToJson([consumed |-> l - 1, lines |-> Len(Events), bad |-> bad, unmodelled |-> unmodelled]) \o "\n",
                    RESULT, [format |-> "TXT", charset |-> "UTF-8",
                             openOptions |-> <<"WRITE", "CREATE", "TRUNCATE_EXISTING">>]).exitValue = 0

\* sanity of the rule alphabets themselves
ASSUME Queries \cap Mutators = {}
=============================================================================
