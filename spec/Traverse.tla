------------------------------ MODULE Traverse ------------------------------
(***************************************************************************)
(* Traverse(path) = stepwise Index descent (property C07).  The result of  *)
(* a traversal is the STRUCTURAL ADDRESS of the value reached: the         *)
(* sequence of 1-based child positions from the root, with 0 standing for  *)
(* "the Stack expression of the Condition just passed".  The harness maps  *)
(* the Go value returned by the real Traverse back to such an address by   *)
(* object identity.                                                        *)
(***************************************************************************)
EXTENDS Trees, ListOps

TvFail == [ok |-> FALSE, addr |-> <<>>]

TvSlots(n) == [i \in 1..Len(n.e) |-> IF n.e[i].t = "nil" THEN "nil" ELSE "v"]
TvOpts(n)  == (IF n.neg THEN {"neg"} ELSE {}) \cup (IF n.fwd THEN {"fwd"} ELSE {})

\* recursive definition
RECURSIVE TraverseSpec(_, _, _)
TraverseSpec(n, path, addr) ==
  IF path = <<>> THEN TvFail
  ELSE LET r == Lookup(TvSlots(n), TvOpts(n), Head(path)) IN
       IF ~r.ok THEN TvFail
       ELSE LET c == n.e[r.pos]
                a == Append(addr, r.pos)
                rest == Tail(path)
            IN IF rest = <<>> THEN [ok |-> TRUE, addr |-> a]
               ELSE IF c.t = "stk" THEN TraverseSpec(c, rest, a)
               ELSE IF c.t = "cnd" /\ c.ex.t = "stk" THEN TraverseSpec(c.ex, rest, Append(a, 0))
               ELSE TvFail

\* the statement's own wording: take Index(i1), then, while indices remain,
\* descend if the value is descendable and apply the next index there
RECURSIVE TvDescend(_, _, _)
TvDescend(cur, rest, addr) ==       \* cur: the value found so far
  IF rest = <<>> THEN [ok |-> TRUE, addr |-> addr]
  ELSE LET stk == IF cur.t = "stk" THEN cur ELSE IF cur.t = "cnd" /\ cur.ex.t = "stk" THEN cur.ex ELSE TrNil
           a0  == IF cur.t = "cnd" THEN Append(addr, 0) ELSE addr
       IN IF stk.t # "stk" THEN TvFail
          ELSE LET r == Lookup(TvSlots(stk), TvOpts(stk), Head(rest)) IN
               IF ~r.ok THEN TvFail ELSE TvDescend(stk.e[r.pos], Tail(rest), Append(a0, r.pos))

IndexDescent(n, path) ==
  IF path = <<>> THEN TvFail
  ELSE LET r == Lookup(TvSlots(n), TvOpts(n), Head(path)) IN
       IF ~r.ok THEN TvFail ELSE TvDescend(n.e[r.pos], Tail(path), <<r.pos>>)

\* all paths up to length n over a value range, in a fixed order
RECURSIVE TvPaths(_, _)
\* every path of ps extended by every value (index arithmetic instead of recursion: the lists get long)
TvExt(ps, vals) == [k \in 1..(Len(ps) * Len(vals)) |->
                      Append(ps[((k - 1) \div Len(vals)) + 1], vals[((k - 1) % Len(vals)) + 1])]
TvPaths(n, vals) == IF n = 0 THEN <<<<>>>>
                    ELSE LET prev == TvPaths(n - 1, vals)
                             longest == SelectSeq(prev, LAMBDA p : Len(p) = n - 1)
                         IN prev \o TvExt(longest, vals)
=============================================================================
