------------------------------ MODULE LinTrace ------------------------------
(***************************************************************************)
(* Linearisation search over histories recorded from real goroutines       *)
(* (property C10).  A history gives, per goroutine, its calls in program   *)
(* order with the values each call returned, the initial state of the      *)
(* shared stack and its content after all goroutines finished.  It is      *)
(* accepted iff some interleaving of the calls that respects every         *)
(* goroutine's own order, executed one call at a time with ListOps!Step,   *)
(* reproduces every recorded return value and the final content.           *)
(* TLC explores, for each history, the graph of (calls consumed per        *)
(* goroutine, abstract state); a history is accepted when a goal state is  *)
(* reachable.  Histories with a recorded panic, deadlock, a configuration  *)
(* record among the values or a capacity overflow are rejected outright.   *)
(***************************************************************************)
EXTENDS ListOps, Json, IOUtils, TLCExt

CONSTANTS HISTFILE, RESULT

H == ndJsonDeserialize(HISTFILE)

ASSUME TLCSet(1, {})

VARIABLES h, done, st
lvars == <<h, done, st>>

FromJ(j) == [j EXCEPT !.opts = LoRange(j.opts), !.acc = LoRange(j.acc), !.lvl = LoRange(j.lvl)]

LInit == /\ h \in 1..Len(H)
         /\ done = [g \in 1..Len(H[h].hist) |-> 0]
         /\ st = FromJ(H[h].init)

LNext == \E g \in DOMAIN done :
           /\ done[g] < Len(H[h].hist[g])
           /\ LET ev == H[h].hist[g][done[g] + 1]
                  r  == Step(st, ev.c)
              IN /\ r.ret = ev.ret
                 /\ st' = r.s
                 /\ done' = [done EXCEPT ![g] = @ + 1]
                 /\ h' = h

LSpec == LInit /\ [][LNext]_lvars

Sane(x) == x.flags = <<>>      \* no panic / deadlock / config-as-element / overflow flag was recorded

Goal == /\ \A g \in DOMAIN done : done[g] = Len(H[h].hist[g])
        /\ st.e = H[h].final
        /\ Sane(H[h])

\* INVARIANT (always true): remembers every history for which a goal state was reached
Mark == Goal => TLCSet(1, TLCGet(1) \cup {h})

\* POSTCONDITION: the histories for which NO sequential explanation exists
Post == Serialize(ToJson([histories |-> Len(H), rejected |-> (1..Len(H)) \ TLCGet(1)]) \o "\n", RESULT,
                  [format |-> "TXT", charset |-> "UTF-8",
                   openOptions |-> <<"WRITE", "CREATE", "TRUNCATE_EXISTING">>]).exitValue = 0
=============================================================================
