----------------------------- MODULE Gen_Reveal -----------------------------
(***************************************************************************)
(* Case generator for Reveal: trees of depth <= 4 with every mix of kinds, *)
(* parenthetical flags, single-child chains, Conditions holding stacks,    *)
(* empty stacks, alias forms and mutex-enabled nodes.  For each tree TLC   *)
(* checks the laws on the whole Reach set and emits it.                    *)
(***************************************************************************)
EXTENDS Reveal, Json, IOUtils

CONSTANTS FAMILY, OUT

LX == TrLeaf(<<"x">>)
LY == TrLeaf(<<"y">>)
St(k, p, m, f, e) == [TrStk(k, e) EXCEPT !.paren = p, !.mtx = m, !.form = f]
Cd(ex) == TrCnd(<<"k">>, "Eq", ex)
CdP(ex) == [Cd(ex) EXCEPT !.paren = TRUE]          \* a parenthetical Condition

\* chains: up to three nested single-child levels with every kind / paren / mutex mix
\* presentation variants of a level: plain, case-folded, with a symbol (none changes what Reveal may do)
Lvl == {<<k, p, m, v>> : k \in {"AND", "NOT"}, p \in BOOLEAN, m \in BOOLEAN, v \in {"plain", "fold", "sym"}}
   \cup {<<"BASIC", p, FALSE, "plain">> : p \in BOOLEAN}          \* a BASIC wrapper renders nothing, but it is a Stack like any other for Reveal
LvStk(a, e) == [St(a[1], a[2], a[3], "native", e) EXCEPT !.fold = (a[4] = "fold"), !.sym = IF a[4] = "sym" THEN <<"!">> ELSE <<>>]
Bottoms == {St("OR", FALSE, FALSE, "native", <<LX, LY>>), St("OR", TRUE, FALSE, "native", <<LX>>), Cd(LX), CdP(LX),
            Cd(St("LIST", FALSE, TRUE, "native", <<LX, LY>>)), LX}
Chain1 == {LvStk(a, <<b>>) : a \in Lvl, b \in Bottoms}
Chain2 == {LvStk(a, <<c>>) : a \in {x \in Lvl : x[4] = "plain" \/ x[1] = "NOT"}, c \in Chain1}
FamChain == {St("AND", FALSE, m, "native", <<c, LY>>) : c \in Chain2, m \in BOOLEAN}
        \cup {St("OR", FALSE, m, "native", <<LY, c>>) : c \in Chain2, m \in BOOLEAN}

\* wide: two children, each a small wrapper or a Condition holding one
W1 == {St(k, p, FALSE, "native", e) : k \in {"AND", "NOT", "LIST", "BASIC"}, p \in BOOLEAN,
                                       e \in {<<LX>>, <<LX, LY>>, <<>>, <<Cd(LX)>>, <<CdP(LX)>>, <<St("OR", FALSE, FALSE, "native", <<LX>>)>>,
                                              <<St("OR", TRUE, FALSE, "native", <<LX, LY>>)>>}}
W2 == W1 \cup {Cd(w) : w \in {St("AND", FALSE, FALSE, "native", <<St("OR", FALSE, FALSE, "native", <<LX, LY>>)>>),
                               St("AND", FALSE, TRUE, "native", <<Cd(LY)>>)}}
     \cup {St("AND", FALSE, TRUE, "native", <<w>>) : w \in W1}
FamWide == {St("AND", FALSE, FALSE, "native", <<a, b>>) : a \in W2, b \in W2 \cup {LX}}

\* alias forms of wrappers and of their single child
FamAlias == {St("AND", FALSE, FALSE, "native", <<St("OR", FALSE, FALSE, f1, <<St("LIST", FALSE, FALSE, f2, <<LX, LY>>)>>), LY,
                                                St("AND", FALSE, FALSE, f2, <<[Cd(LX) EXCEPT !.form = f1, !.paren = cp]>>)>>) :
               f1 \in {"native", "alias", "walias", "ptr"}, f2 \in {"native", "alias", "walias", "ptr"}, cp \in BOOLEAN}

\* index options (forward / negative addressing) on the receiver and on a nested stack: Reveal walks by Index()
Inner2 == {St("OR", FALSE, FALSE, "native", <<LX, LY>>), St("OR", FALSE, FALSE, "native", <<St("LIST", FALSE, FALSE, "native", <<LX, LY>>)>>),
           St("AND", FALSE, FALSE, "native", <<St("OR", FALSE, FALSE, "native", <<Cd(LX)>>)>>), St("NOT", FALSE, FALSE, "native", <<LX>>), Cd(LY)}
FamIdx == {[St("AND", FALSE, m, "native", es) EXCEPT !.fwd = f, !.neg = ng] :
             m \in BOOLEAN, f \in BOOLEAN, ng \in BOOLEAN, es \in {<<a, b>> : a \in Inner2 \cup {LX}, b \in Inner2}}
      \cup {St("AND", FALSE, FALSE, "native", <<LX, [St("OR", FALSE, m, "native", <<LY, b>>) EXCEPT !.fwd = f, !.neg = ng]>>) :
             m \in BOOLEAN, f \in BOOLEAN, ng \in BOOLEAN, b \in Inner2}

Cases == CASE FAMILY = "chain" -> FamChain [] FAMILY = "wide" -> FamWide [] FAMILY = "alias" -> FamAlias [] FAMILY = "idx" -> FamIdx

VARIABLE cs
Init == cs \in Cases
Next == UNCHANGED cs
Spec == Init /\ [][Next]_cs

Laws == RvLaws(Shape(cs))

RECURSIVE RvSetToSeq(_)
RvSetToSeq(S) == IF S = {} THEN <<>> ELSE LET x == CHOOSE y \in S : TRUE IN <<x>> \o RvSetToSeq(S \ {x})

Emit == OUT = "" \/
        Serialize(ToJson([in |-> cs, exp |-> [anyof |-> RvSetToSeq(Reach(Shape(cs)))]]) \o "\n",
                  OUT, [format |-> "TXT", charset |-> "UTF-8", openOptions |-> <<"WRITE", "CREATE", "APPEND">>]).exitValue = 0
=============================================================================
