----------------------------- MODULE Check_Codec -----------------------------
(* code -> spec for the codec: recorded round trips (C04) and recorded      *)
(* Marshal calls on random junk (C16) are validated line by line.           *)
EXTENDS Codec, Json, IOUtils
CONSTANTS CASEFILE, RESULT
Recs == ndJsonDeserialize(CASEFILE)
VARIABLES l, bad

MarshalOK(exp, out) == MarshalAccepts(exp, out)

Accept(r) ==
  IF r.arg.mode = "roundtrip"
  THEN /\ r.out.total = "ok" /\ r.out.err = "nil"
       /\ r.out.u1 = UnmarshalSpec(r.in)
       /\ r.out.struct = Struct(r.in)
       /\ r.out.u2eq = "true"
       /\ (r.arg.cmpeq => r.out.iseq = <<"true", "true">>)
  ELSE MarshalOK(IF r.arg.recv = "zero" THEN MarshalZero(r.in) ELSE MarshalLive(r.in), r.out)

Init == l = 1 /\ bad = <<>>
Next == /\ l <= Len(Recs) /\ l' = l + 1
        /\ LET r == Recs[l] IN
           bad' = IF r.panic = "" /\ Accept(r) THEN bad
                  ELSE Append(bad, [line |-> l,
                                    exp |-> IF r.arg.mode = "roundtrip"
                                            THEN [total |-> "ok", u1 |-> UnmarshalSpec(r.in), err |-> "nil", struct |-> Struct(r.in),
                                                  u2eq |-> "true", iseq |-> IF r.arg.cmpeq THEN <<"true", "true">> ELSE "*"]
                                            ELSE MarshalJ(IF r.arg.recv = "zero" THEN MarshalZero(r.in) ELSE MarshalLive(r.in))])
Spec == Init /\ [][Next]_<<l, bad>>
Done == (l = Len(Recs) + 1) =>
          Serialize(ToJson([consumed |-> l - 1, lines |-> Len(Recs), bad |-> bad]) \o "\n", RESULT,
                    [format |-> "TXT", charset |-> "UTF-8", openOptions |-> <<"WRITE", "CREATE", "TRUNCATE_EXISTING">>]).exitValue = 0
=============================================================================
