---------------------------- MODULE Check_Reveal ----------------------------
(* code -> spec for Reveal: the recorded shape after Reveal must be a       *)
(* member of Reach(shape before).                                           *)
EXTENDS Reveal, Json, IOUtils
CONSTANTS CASEFILE, RESULT
Recs == ndJsonDeserialize(CASEFILE)
VARIABLES l, bad
Init == l = 1 /\ bad = <<>>
Next == /\ l <= Len(Recs) /\ l' = l + 1
        /\ LET r == Recs[l] IN
           bad' = IF r.panic = "" /\ r.out \in Reach(Shape(r.in)) THEN bad ELSE Append(bad, [line |-> l, exp |-> [anyof |-> <<Shape(r.in)>>]])
Spec == Init /\ [][Next]_<<l, bad>>
Done == (l = Len(Recs) + 1) =>
          Serialize(ToJson([consumed |-> l - 1, lines |-> Len(Recs), bad |-> bad]) \o "\n", RESULT,
                    [format |-> "TXT", charset |-> "UTF-8", openOptions |-> <<"WRITE", "CREATE", "TRUNCATE_EXISTING">>]).exitValue = 0
=============================================================================
