---------------------------- MODULE Gen_Traverse ----------------------------
(***************************************************************************)
(* Case generator for Traverse: all trees of a bounded shape x ALL index   *)
(* paths of length 0..MaxPath over -1..Width+1 (one line per tree carrying *)
(* every path and its expected result).  TLC also checks, for every pair,  *)
(* that the recursive definition equals the stepwise Index descent.        *)
(***************************************************************************)
EXTENDS Traverse, Json, IOUtils

CONSTANTS FAMILY, OUT, Width, MaxPath

L == TrLeaf(<<"l">>)
IdxOpts == {<<FALSE, FALSE>>, <<TRUE, FALSE>>, <<FALSE, TRUE>>, <<TRUE, TRUE>>}
WithIdx(s, o) == [s EXCEPT !.neg = o[1], !.fwd = o[2]]

\* depth-1 stacks over leaves and nil slots
S1 == {WithIdx(TrStk(k, es), o) : k \in {"AND"}, es \in SeqsUpTo({L, TrNil}, Width), o \in {<<FALSE, FALSE>>, <<TRUE, TRUE>>}}
S1small == {[WithIdx(TrStk("OR", es), o) EXCEPT !.er = (o[1])] : es \in {<<>>, <<L>>, <<L, TrNil>>, <<TrNil, L>>}, o \in {<<FALSE, FALSE>>, <<TRUE, TRUE>>}}

\* element alternatives of a depth-2 stack
A2 == {L, TrNil, TrCnd(<<"k">>, "Eq", L)} \cup S1small \cup {TrCnd(<<"k">>, "Eq", s) : s \in S1small}
   \cup {TrCnd(<<>>, "Eq", WithIdx(TrStk("OR", <<L, TrNil>>), <<FALSE, FALSE>>)),                      \* a Condition that is not VALID (no keyword) is descended into all the same
         TrCnd(<<"k">>, "Eq", [WithIdx(TrStk("OR", <<L, TrNil>>), <<FALSE, FALSE>>) EXCEPT !.form = "alias"]),  \* ... and one holding a Stack in alias / pointer form
         TrCnd(<<"k">>, "Ge", [WithIdx(TrStk("OR", <<TrNil, L>>), <<TRUE, TRUE>>) EXCEPT !.form = "ptr"])}
   \cup {[s EXCEPT !.form = f] : s \in {WithIdx(TrStk("OR", <<L, TrNil>>), <<FALSE, FALSE>>)}, f \in {"alias", "ptr"}}
S2 == {[WithIdx(TrStk("AND", es), o) EXCEPT !.nn = b] : es \in SeqsUpTo(A2, Width), o \in IdxOpts, b \in BOOLEAN}

\* depth 3: a depth-2 stack (or a Condition holding one) among leaves
S2small == {[WithIdx(TrStk("LIST", <<a, b>>), o) EXCEPT !.nn = (o[1]), !.er = (o[2])] : a \in {L, TrNil}, b \in S1small \cup {TrCnd(<<"k">>, "Ge", s) : s \in S1small}, o \in {<<FALSE, FALSE>>, <<TRUE, TRUE>>}}
S3 == {WithIdx(TrStk("AND", <<a, b>>), o) : a \in {L, TrNil} \cup S1small, b \in S2small \cup {TrCnd(<<"c">>, "Eq", s) : s \in S2small}, o \in {<<FALSE, FALSE>>, <<TRUE, TRUE>>}}

Cases == CASE FAMILY = "d1" -> S1 [] FAMILY = "d2" -> S2 [] FAMILY = "d3" -> S3

Vals == [i \in 1..(Width + 3) |-> i - 2]       \* -1 .. Width+1
Paths == TvPaths(MaxPath, Vals)

VARIABLE cs
Init == cs \in Cases
Next == UNCHANGED cs
Spec == Init /\ [][Next]_cs

\* the recursive definition equals the stepwise descent, for every path
Laws == \A i \in 1..Len(Paths) : TraverseSpec(cs, Paths[i], <<>>) = IndexDescent(cs, Paths[i])
        /\ TraverseSpec(cs, <<>>, <<>>) = TvFail

Res(r) == [ok |-> r.ok, addr |-> r.addr, note |-> ""]      \* note: what the harness has to say about the returned VALUE (foreign, of another type than stored, non-nil on failure)
Emit == OUT = "" \/
        Serialize(ToJson([in |-> cs, arg |-> Paths, exp |-> [i \in 1..Len(Paths) |-> Res(TraverseSpec(cs, Paths[i], <<>>))]]) \o "\n",
                  OUT, [format |-> "TXT", charset |-> "UTF-8", openOptions |-> <<"WRITE", "CREATE", "APPEND">>]).exitValue = 0
=============================================================================
