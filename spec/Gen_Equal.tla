------------------------------ MODULE Gen_Equal ------------------------------
(***************************************************************************)
(* Case generator for IsEqual: for each tree of a family, the pair (t, t)   *)
(* [expected: equal in both directions], every pair (t, m) with m a single  *)
(* point mutation [expected: an error in both directions] and every pair    *)
(* (t, n) with n a neutral variation [expected: equal].                     *)
(***************************************************************************)
EXTENDS Equal, Json, IOUtils
CONSTANTS FAMILY, OUT

I(s) == TrLeafT("int", s)
S(s) == TrLeaf(s)
Ptr(d, x) == [t |-> "ptr", d |-> d, x |-> x]
Sl(arr, e) == [t |-> "sl", arr |-> arr, ety |-> "typed", slack |-> 0, e |-> e]
SlP(e) == [t |-> "sl", arr |-> FALSE, ety |-> "ptr", slack |-> 0, e |-> e]          \* []*int
SlA(e) == [t |-> "sl", arr |-> FALSE, ety |-> "any", slack |-> 0, e |-> e]          \* []any
Mp(ks, vs) == [t |-> "mp", vp |-> FALSE, ks |-> ks, vs |-> vs]
MpP(ks, vs) == [t |-> "mp", vp |-> TRUE, ks |-> ks, vs |-> vs]          \* map[string]*int
St(a, p, c) == [t |-> "st", a |-> a, p |-> p, c |-> c, sty |-> "plain"]
StE(a, c, y) == [t |-> "st", a |-> a, p |-> <<>>, c |-> c, sty |-> y]
Mpa(ks, e) == [t |-> "mpa", ks |-> ks, e |-> e]

Ints == <<I(<<"1">>), I(<<"2">>), I(<<"3">>)>>
Leaves == {I(<<"5">>), S(<<"x">>), B, TrNil,
           Ptr(1, I(<<"5">>)), Ptr(2, S(<<"x">>)),
           Sl(FALSE, <<>>), Sl(FALSE, SubSeq(Ints, 1, 1)), Sl(FALSE, SubSeq(Ints, 1, 2)), Sl(FALSE, Ints), Sl(TRUE, Ints), Sl(TRUE, SubSeq(Ints, 1, 2)),
           Sl(FALSE, <<S(<<"a">>), S(<<"b">>), S(<<"c">>)>>),
           Sl(FALSE, <<Sl(FALSE, SubSeq(Ints, 1, 2)), Sl(FALSE, SubSeq(Ints, 2, 3))>>),      \* nested slices
           Ptr(1, Sl(FALSE, Ints)),
           SlP(SubSeq(Ints, 1, 2)), SlP(<<I(<<"1">>), TrNil>>), SlP(<<TrNil, TrNil>>),                      \* pointer elements, nil pointers
           SlA(<<I(<<"1">>), S(<<"a">>), Ptr(1, I(<<"5">>))>>), SlA(<<TrNil, Ptr(2, S(<<"x">>))>>),           \* []any of leaves
           SlA(<<Sl(FALSE, SubSeq(Ints, 1, 2)), Mp(<<<<"k">>>>, <<<<"1">>>>), St(<<"1">>, <<"p">>, <<"c">>)>>),
           SlA(<<SlA(<<S(<<"z">>), Ptr(1, I(<<"5">>))>>), I(<<"2">>)>>),
           Mp(<<>>, <<>>), Mp(<<<<"k">>>>, <<<<"1">>>>), Mp(<<<<"k">>, <<"j">>>>, <<<<"1">>, <<"2">>>>),
           MpP(<<<<"k">>>>, <<<<"1">>>>), MpP(<<<<"k">>, <<"j">>>>, <<<<"1">>, <<"2">>>>),
           Mpa(<<<<"k">>>>, <<TrNil>>), Mpa(<<<<"k">>, <<"j">>>>, <<S(<<"x">>), TrNil>>), Mpa(<<<<"k">>, <<"j">>>>, <<I(<<"5">>), S(<<"y">>)>>),
           St(<<"1">>, <<"p">>, <<"c">>), Ptr(1, St(<<"2">>, <<"r">>, <<"d">>)),
           StE(<<"1">>, <<"c">>, "embp"), StE(<<"1">>, <<"c">>, "embx"), Ptr(1, StE(<<"2">>, <<"d">>, "embp"))}

\* one leaf (or a pair of leaves) in each position: element of a stack, Condition expression, nested
Flat  == {[TrStk(k, <<l>>) EXCEPT !.cap = c] : k \in {"AND", "LIST", "BASIC"}, l \in Leaves, c \in {0, 3}}
     \cup {TrStk("OR", <<l1, l2>>) : l1 \in Leaves, l2 \in {I(<<"5">>), Sl(FALSE, Ints), S(<<"x">>)}}
InCond == {TrStk("AND", <<TrCnd(<<"k">>, "Eq", l), S(<<"y">>)>>) : l \in Leaves \ {TrNil}}
     \cup {TrStk("AND", <<TrCnd(kw, op, S(<<"v">>))>>) : kw \in {<<"k">>, <<"K", "x">>, <<"c", "1">>}, op \in {"like", "LIKE", "Ge", "uslice"}}       \* uslice: a user operator of a NON-COMPARABLE Go type on both sides
Nested == {TrStk("AND", <<S(<<"y">>), [TrStk("OR", <<l, KV>>) EXCEPT !.form = f], TrCnd(<<"c">>, "Ge", TrStk("LIST", <<l>>))>>) :
             l \in Leaves, f \in {"native", "alias", "ptr"}}

Trees == CASE FAMILY = "flat" -> Flat [] FAMILY = "incond" -> InCond [] FAMILY = "nested" -> Nested

VARIABLES cs, other, exp
Init == /\ cs \in Trees
        /\ \/ (other = cs /\ exp = "equal")
           \/ (other \in Mutants(cs) /\ exp = "different")
           \/ (other \in Neutral(cs) /\ exp = "equal")
Next == UNCHANGED <<cs, other, exp>>
Spec == Init /\ [][Next]_<<cs, other, exp>>

Laws == EqLaws(cs) /\ (Eq(cs, other) <=> exp = "equal")

Emit == OUT = "" \/
        Serialize(ToJson([in |-> [t |-> "pair", a |-> cs, b |-> other],
                          exp |-> IF exp = "equal" THEN <<"nil", "nil">> ELSE <<"err", "err">>]) \o "\n",
                  OUT, [format |-> "TXT", charset |-> "UTF-8", openOptions |-> <<"WRITE", "CREATE", "APPEND">>]).exitValue = 0
=============================================================================
