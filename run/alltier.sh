#!/bin/sh
# alltier.sh <quick|thorough> [ids...] : run the registered checks of one tier once (VERIF_SEED from the environment); one line per check
cd "$(dirname "$0")/.."
tier=${1:-quick}; shift
ids="$@"
[ -z "$ids" ] && ids=$(python3 -c "import json; print(' '.join(c['property_id'] for c in json.load(open('MANIFEST.json'))['checks']))")
for p in $ids; do
  s=$(date +%s)
  out=$(python3 run/check.py $p --tier $tier 2>&1); rc=$?
  echo "$p $tier rc=$rc $(( $(date +%s) - s ))s $(echo "$out" | grep -cE '^VIOLATION') violations $(echo "$out" | grep -cE '^KNOWN-FINDING') known | $(echo "$out" | tail -1 | cut -c1-160)"
  [ $rc -ne 0 ] && echo "$out" | tail -15 | cut -c1-400
done
