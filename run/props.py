"""Per-property check definitions."""
import json, os, shutil
import lib
from lib import Infra, Findings, tla_set, tla_str_set

CHECKS = {}

def check(pid):
    def deco(f):
        CHECKS[pid] = f
        return f
    return deco

# ---------------------------------------------------------------------------
# The Stack state machine (spec/ListOps.tla, Stackage.tla, StackageTrace.tla)
# ---------------------------------------------------------------------------

ALL_FIELDS = ["init", "len", "empty", "cap", "avail", "full", "kind", "fifo", "idx", "front",
              "back", "bits", "ronly", "paren", "padded", "cannest", "nesting", "err", "canmtx",
              "id", "cat", "delim", "sym", "enc", "isenc", "elems", "integ", "locked", "valid", "strsrc", "eqsrc", "umsrc", "loglevels", "aux", "logger"]
# "less" (Less(0,1), Less(1,0), Less(0,0)) is compared where the instance's values have a defined text (C14)

SM_DEFAULT = dict(Vals=["nil", "a", "b"], MaxLen=3, Caps=[0], Kinds=["AND"], InitOpts=[[]], InitMtx=[False],
                  Fams=["list"], OptFlags=[], PushLens=[1, 2], DstCaps=[0], DstOps=["push", "pop"], IdxMode="existing",
                  invariants=["TypeOK", "CapInv", "CapObs", "StepProps"],
                  properties=["FifoLatch", "DeadStaysDead"], depth=2, walks=300, wlen=40)


def sm_cfg(c, out):
    optsets = tla_set(tla_str_set(o) for o in c["InitOpts"])
    lines = ["SPECIFICATION Spec", "CONSTANTS",
             "  Vals = " + tla_str_set(c["Vals"]),
             "  MaxLen = %d" % c["MaxLen"],
             "  Caps = " + tla_set(map(str, c["Caps"])),
             "  Kinds = " + tla_str_set(c["Kinds"]),
             "  InitOpts = " + optsets,
             "  InitMtx = " + tla_set("TRUE" if b else "FALSE" for b in c["InitMtx"]),
             "  Fams = " + tla_str_set(c["Fams"]),
             "  OptFlags = " + tla_str_set(c["OptFlags"]),
             "  PushLens = " + tla_set(map(str, c["PushLens"])),
             "  DstCaps = " + tla_set(map(str, c["DstCaps"])),
             "  DstOps = " + tla_str_set(c["DstOps"]),
             '  IdxMode = "%s"' % c["IdxMode"],
             '  OUT = "%s"' % out,
             "INVARIANTS " + " ".join(c["invariants"] + (["Emit"] if out else [])),
             "PROPERTIES " + " ".join(c["properties"]),
             "CHECK_DEADLOCK FALSE", ""]
    return "\n".join(lines)


COND_FIELDS = ["init", "kw", "op", "opctx", "ex", "len", "nesting", "cannest", "paren", "padded", "ronly", "isenc", "enc",
               "err", "id", "cat", "valid", "str", "bits", "loglevels", "eqsrc", "umsrc", "evsrc"]

COND_DEFAULT = dict(machine="cond", KwArgs=["k", "", "stringer", "nil", "int"],
                    OpArgs=["Eq", "Ge", "op0", "user", "userB", "eqB", "emptytext", "emptyctx", "nil"],
                    ExArgs=["nil", "s:v", "s:", "i:5", "S", "A", "C", "str"],
                    CFams=["set", "cond", "opts", "life"], COptFlags=["paren", "nspad", "ronly", "nnest"],
                    invariants=["CTypeOK", "CStepProps"], depth=2, walks=300, wlen=40, fields=COND_FIELDS)


def cond_cfg(c, out):
    return "\n".join(["SPECIFICATION CSpec", "CONSTANTS",
                      "  KwArgs = " + tla_str_set(c["KwArgs"]), "  OpArgs = " + tla_str_set(c["OpArgs"]),
                      "  ExArgs = " + tla_str_set(c["ExArgs"]), "  CFams = " + tla_str_set(c["CFams"]),
                      "  COptFlags = " + tla_str_set(c["COptFlags"]), '  OUT = "%s"' % out,
                      "INVARIANTS " + " ".join(c["invariants"] + (["CEmit"] if out else [])),
                      "CHECK_DEADLOCK FALSE", ""])


def cond_trace_stage(work, v, findings, prop, harness, name, t, fields, acc):
    """code -> spec for Conditions (CondTrace.tla)."""
    tr = work.path("ctrace_%s.ndjson" % name)
    rc, out, _ = lib.run([harness, "condtracegen", "-out", tr, "-seed", str(lib.seed() * 104729 + t.get("salt", 0)),
                          "-traces", str(t["traces"]), "-len", str(t["len"])], timeout=600)
    if rc != 0:
        raise Infra("condtracegen failed: " + out[-2000:])
    g = json.loads(out.strip().splitlines()[-1])
    result = work.path("cresult_%s.json" % name)
    cfg = "\n".join(["SPECIFICATION CTSpec", "CONSTANTS", '  TRACEFILE = "%s"' % tr, '  RESULT = "%s"' % result,
                     "  FIELDS = " + tla_str_set(fields), "INVARIANT Done", "CHECK_DEADLOCK FALSE", ""])
    res = lib.tlc(work, "ctv_" + name, "CondTrace", cfg, workers=1, timeout=1200)
    if not os.path.exists(result):
        raise Infra("CondTrace wrote no result")
    r = json.load(open(result))
    nlines = g["events"] + g["traces"]
    if r["consumed"] != nlines:
        raise Infra("CondTrace consumed %s of %s lines" % (r["consumed"], nlines))
    acc["traces"] += g["traces"]; acc["trace_events"] += g["events"]; acc["evaluations"] += g["events"]; acc["states"] += res["distinct"]
    acc["tv"].append(dict(name="cond-" + name, histories=g["traces"], events=g["events"], rejected_lines=len(r["bad"]), tlc_wall_s=round(res["wall"], 1)))
    if r["bad"]:
        lines = lib.read_ndjson(tr)
        seen = {}
        for b in r["bad"]:
            ln = b["line"]; start = ln - 1
            while lines[start - 1]["ev"] != "reset":
                start -= 1
            reset = lines[start - 1]
            steps = [dict(c=e["c"], on="st", exp_ret=e["ret"]) for e in lines[start:ln]]
            last = lines[ln - 1]
            steps[-1]["exp_ret"] = b["expret"]
            eo = dict(last["obs"])
            if isinstance(b.get("exp"), dict):
                eo.update(b["exp"])
            steps[-1]["exp_obs"] = eo
            kind = "panic" if last["ret"][:1] == ["PANIC"] else ("ret" if not b["retok"] else "obs")
            rec = dict(property=prop, machine="cond", kind=kind, init=reset["st"], steps=steps,
                       detail=["trace line %d rejected by CondTrace" % ln, "observed ret %s, spec ret %s" % (last["ret"], b["expret"]),
                               "observables differing: %s" % (sorted(b["exp"].keys()) if isinstance(b.get("exp"), dict) else [])],
                       **{"class": "%s/Condition.%s/%s" % (prop, b["op"], kind)})
            k = rec["class"]; seen[k] = seen.get(k, 0) + 1
            if seen[k] <= 2:
                triage(v, findings, prop, harness, rec, fields)
    else:
        lines = lib.read_ndjson(tr, limit=6)
        acc["samples"].append(dict(kind="validated-condition-trace-prefix", lines=[dict(call=e.get("c"), ret=e.get("ret")) for e in lines[1:5]]))


def triage(v, findings, prop, harness, rec, fields=None):
    """One mismatch record -> known finding or (re-executed, confirmed) violation."""
    sig = rec.get("class", "?")
    f = findings.match(prop, sig)
    if f is not None:
        v.known_finding("%s (%s)" % (sig, f["_line"][:160]))
        return
    path = v.violation(rec, "; ".join(rec.get("detail", []))[:400])
    cmd = [harness, "replay"]
    if fields:
        cmd += ["-fields", ",".join(fields)]
    rc, out, _ = lib.run(cmd + [path], timeout=120)
    if rc != 1 or "DISAGREES" not in out:
        raise Infra("counterexample %s did not reproduce on re-execution (rc=%d): %s" % (path, rc, out[-500:]))


def sm_table_stage(work, v, findings, prop, harness, name, c, fields, acc):
    """spec -> code: model-check one bounded instance, emit its transition
    table, replay it (single transitions, all paths to a depth, random walks)."""
    d_out = work.path("table_%s.ndjson" % name)
    machine = c.get("machine", "stack")
    if machine == "cond":
        res = lib.tlc(work, "mc_" + name, "CondMC", cond_cfg(c, d_out), workers=1, timeout=c.get("timeout", 900))
    else:
        res = lib.tlc(work, "mc_" + name, "Stackage", sm_cfg(c, d_out), workers=1, timeout=c.get("timeout", 900))
    sz = os.path.getsize(d_out) if os.path.exists(d_out) else 0
    if sz > 400 * 1024 * 1024:
        raise Infra("transition table of instance %s is %d MB (%d states): constants too large for this tier" % (name, sz >> 20, res["distinct"]))
    lib.log("table %s: %d states, %d MB, TLC %.1fs" % (name, res["distinct"], sz >> 20, res["wall"]))
    summ = work.path("sum_%s.json" % name)
    mm = work.path("mm_%s.ndjson" % name)
    cmd = [harness, "table", "-table", d_out, "-prop", prop, "-depth", str(c["depth"]),
           "-walks", str(c["walks"]), "-wlen", str(c["wlen"]), "-seed", str(lib.seed()),
           "-mismatches", mm, "-summary", summ, "-fields", ",".join(c.get("fields", fields)), "-machine", machine]
    rc, out, wall = lib.run(cmd, timeout=c.get("replay_timeout", 1800))
    if rc != 0:
        raise Infra("table replay failed: " + out[-2000:])
    s = json.load(open(summ))
    if s["states"] != res["distinct"]:
        raise Infra("table has %d states but TLC found %d distinct states" % (s["states"], res["distinct"]))
    acc["states"] += res["distinct"]
    acc["transitions"] += s["transitions"]
    acc["generated"] += res["generated"]
    acc["traces"] += s["paths_replayed"] + s["walks"]
    acc["evaluations"] += s["steps_executed"]
    acc["transitions_replayed"] += s["transitions_replayed"]
    acc["instances"].append(dict(name=name, machine=machine, constants={k: c[k] for k in c if k in
                            ("Vals", "MaxLen", "Caps", "Kinds", "InitOpts", "InitMtx", "Fams", "IdxMode", "PushLens", "DstCaps", "OptFlags")},
                            tlc_distinct_states=res["distinct"], tlc_generated=res["generated"],
                            table_transitions=s["transitions"], paths_depth=c["depth"],
                            paths_replayed=s["paths_replayed"], walks=s["walks"],
                            steps_executed=s["steps_executed"], mismatches=s["mismatches"],
                            tlc_wall_s=round(res["wall"], 1), replay_wall_s=round(wall, 1)))
    for smp in (s.get("samples") or [])[:2]:
        acc["samples"].append(dict(kind="table-replay", init=smp["init"],
                                   steps=[dict(call=x["c"], on=x["on"], expected_ret=x["exp_ret"]) for x in smp["steps"]][:6]))
    seen = {}
    for rec in lib.read_ndjson(mm):
        k = rec.get("class")
        seen[k] = seen.get(k, 0) + 1
        if seen[k] <= 2:
            triage(v, findings, prop, harness, rec, c.get("fields", fields))
    return s


def sm_trace_stage(work, v, findings, prop, harness, name, t, fields, acc):
    """code -> spec: record random histories from the real package, validate
    them with the TLC trace specification."""
    tr = work.path("trace_%s.ndjson" % name)
    cmd = [harness, "tracegen", "-out", tr, "-seed", str(lib.seed() * 7919 + t.get("salt", 0)),
           "-traces", str(t["traces"]), "-len", str(t["len"]), "-fams", ",".join(t["fams"]),
           "-mode", t.get("mode", "existing"), "-nvals", str(t.get("nvals", 20)),
           "-maxlen", str(t.get("maxlen", 14))]
    if t.get("nest"):
        cmd.append("-nest")
    if t.get("caps"):
        cmd += ["-caps", t["caps"]]
    rc, out, _ = lib.run(cmd, timeout=600)
    if rc != 0:
        raise Infra("tracegen failed: " + out[-2000:])
    g = json.loads(out.strip().splitlines()[-1])
    result = work.path("result_%s.json" % name)
    cfg = "\n".join(["SPECIFICATION TSpec", "CONSTANTS",
                     '  TRACEFILE = "%s"' % tr, '  RESULT = "%s"' % result,
                     "  FIELDS = " + tla_str_set(fields),
                     "INVARIANT Done", "CHECK_DEADLOCK FALSE", ""])
    res = lib.tlc(work, "tv_" + name, "StackageTrace", cfg, workers=1, timeout=t.get("timeout", 1200))
    if not os.path.exists(result):
        raise Infra("trace validation wrote no result (trace not consumed)")
    r = json.load(open(result))
    nlines = g["events"] + g["traces"]
    if r["consumed"] != nlines or r["lines"] != nlines:
        raise Infra("trace validation consumed %s of %s lines" % (r["consumed"], nlines))
    acc["traces"] += g["traces"]
    acc["trace_events"] += g["events"]
    acc["evaluations"] += g["events"]
    acc["states"] += res["distinct"]
    acc["tv"].append(dict(name=name, histories=g["traces"], events=g["events"], rejected_lines=len(r["bad"]),
                          families=t["fams"], index_mode=t.get("mode", "existing"), tlc_wall_s=round(res["wall"], 1)))
    if r["bad"]:
        lines = lib.read_ndjson(tr)
        seen = {}
        for b in r["bad"]:
            ln = b["line"]  # 1-based
            start = ln - 1
            while lines[start - 1]["ev"] != "reset":
                start -= 1
            reset = lines[start - 1]
            steps = []
            for e in lines[start:ln]:
                steps.append(dict(c=e["c"], on=e["on"], exp_ret=e["ret"]))
            last = lines[ln - 1]
            steps[-1]["exp_ret"] = b["expret"]
            eo = dict(last["obs"])
            if isinstance(b.get("exp"), dict):
                eo.update(b["exp"])
            steps[-1]["exp_obs"] = eo
            kind = "ret" if not b["retok"] else "obs"
            if last["ret"][:1] == ["PANIC"]:
                kind = "panic"
            rec = dict(property=prop, kind=kind, init=reset["st"], steps=steps,
                       detail=["trace line %d rejected by StackageTrace" % ln,
                               "observed ret %s, spec ret %s" % (last["ret"], b["expret"]),
                               "observables differing: %s" % (sorted(b["exp"].keys()) if isinstance(b.get("exp"), dict) else [])],
                       **{"class": "%s/%s/%s" % (prop, b["op"], kind)})
            if reset["dst"].get("live"):
                rec["dinit"] = reset["dst"]
                do = dict(last["dobs"])
                if isinstance(b.get("dexp"), dict):
                    do.update(b["dexp"])
                steps[-1]["exp_dobs"] = do
            k = rec["class"]
            seen[k] = seen.get(k, 0) + 1
            if seen[k] <= 2:
                triage(v, findings, prop, harness, rec, fields)
    else:
        # keep one accepted history prefix as a sample
        lines = lib.read_ndjson(tr, limit=6)
        acc["samples"].append(dict(kind="validated-trace-prefix",
                                   lines=[dict(call=e.get("c"), ret=e.get("ret")) for e in lines[1:5]]))


def frame_stage(work, v, findings, prop, harness, mode, acc, seqs=100, limit=400):
    """Reflection sweep over the whole exported method set; the recorded
    events are validated against the frame rules of spec/Frame.tla."""
    evf = work.path("sweep_%s.ndjson" % mode)
    rc, out, _ = lib.run([harness, "sweep", "-mode", mode, "-out", evf, "-seed", str(lib.seed()),
                          "-seqs", str(seqs), "-limit", str(limit)], timeout=900)
    if rc != 0:
        raise Infra("sweep %s failed: %s" % (mode, out[-2000:]))
    g = json.loads(out.strip().splitlines()[-1])
    result = work.path("frame_%s.json" % mode)
    cfg = "\n".join(["SPECIFICATION FSpec", "CONSTANTS", '  EVENTFILE = "%s"' % evf, '  RESULT = "%s"' % result,
                     "INVARIANT Done", "CHECK_DEADLOCK FALSE", ""])
    res = lib.tlc(work, "frame_" + mode, "Frame", cfg, workers=1, timeout=1200)
    if not os.path.exists(result):
        raise Infra("Frame validation wrote no result")
    r = json.load(open(result))
    if r["consumed"] != r["lines"] or r["consumed"] < g["events"]:
        raise Infra("Frame validation consumed %s of %s lines" % (r["consumed"], r["lines"]))
    acc["states"] += res["distinct"]
    acc["transitions"] += g["events"]
    acc["evaluations"] += g["events"]
    acc["trace_events"] += g["events"]
    acc["traces"] += 1
    acc["tv"].append(dict(name="frame-" + mode, events=g["events"], methods_enumerated=len(g["methods"]),
                          rejected_lines=len(r["bad"]), unmodelled_methods=r["unmodelled"], tlc_wall_s=round(res["wall"], 1)))
    acc.setdefault("methods", set()).update(g["methods"])
    if r["bad"]:
        lines = lib.read_ndjson(evf)
        seen = {}
        for b in r["bad"]:
            ln = b["line"]
            start = ln - 1
            while start > 0 and lines[start - 1]["ev"] != "reset":
                start -= 1
            evs = [e for e in lines[start:ln] if e["ev"] == "call"]
            last = evs[-1]
            rec = dict(property=prop, kind="sweep", events=evs, rules=b["rules"],
                       detail=["%s.%s(%s) on %s [%s]: violates %s" % (last["typ"], last["method"], last["args"], last["recv"], last["mode"], ",".join(b["rules"])),
                               "panic=%r live %s->%s ronly %s->%s snapshot-unchanged=%s nonzero=%s errres=%s again=%s health=%s" % (
                                   last["panic"], last["prelive"], last["postlive"], last["prero"], last["postro"],
                                   last["pre"] == last["post"], last["nonzero"], last["errres"], last["again"], last["health"])],
                       **{"class": "%s/%s.%s/%s" % (prop, last["typ"], last["method"], "+".join(b["rules"]))})
            k = rec["class"]
            seen[k] = seen.get(k, 0) + 1
            if seen[k] <= 2:
                triage(v, findings, prop, harness, rec, None)
    else:
        lines = lib.read_ndjson(evf, limit=40)
        smp = [e for e in lines if e["ev"] == "call"][7:9]
        for e in smp:
            acc["samples"].append(dict(kind="frame-event", mode=e["mode"], receiver=e["recv"], method=e["typ"] + "." + e["method"],
                                       args=e["args"], snapshot_unchanged=e["pre"] == e["post"], panic=e["panic"]))


def gen_cases_stage(work, v, findings, prop, harness, acc, module, family, fn, consts=None, invariants=("Laws", "Emit"), timeout=900):
    """spec -> code for a pure function: TLC enumerates a finite family of
    inputs, checks the laws of the specification operator on each and emits
    (input, expected); the harness evaluates the real function on each."""
    name = "%s_%s" % (module, family) + ("" if tuple(invariants) == ("Laws", "Emit") else "_" + fn)
    outp = work.path("cases_%s.ndjson" % name)
    lines = ["SPECIFICATION Spec", "CONSTANTS", '  FAMILY = "%s"' % family, '  OUT = "%s"' % outp]
    for k, val in (consts or {}).items():
        lines.append("  %s = %s" % (k, val))
    lines += ["INVARIANTS " + " ".join(invariants), "CHECK_DEADLOCK FALSE", ""]
    res = lib.tlc(work, "gen_" + name, module, "\n".join(lines), workers=1, timeout=timeout)
    summ = work.path("csum_%s.json" % name)
    mm = work.path("cmm_%s.ndjson" % name)
    rc, out, wall = lib.run([harness, "cases", "-cases", outp, "-fn", fn, "-prop", prop, "-mismatches", mm, "-summary", summ], timeout=1800)
    if rc != 0:
        raise Infra("case replay failed: " + out[-2000:])
    s = json.load(open(summ))
    if s["cases"] != res["distinct"] and not s.get("aborted_after_deadlocks"):
        raise Infra("%s: %d cases replayed but TLC enumerated %d" % (name, s["cases"], res["distinct"]))
    acc["states"] += res["distinct"]; acc["transitions"] += s["cases"]; acc["generated"] += res["generated"]
    acc["evaluations"] += s["cases"]; acc["traces"] += s["cases"]
    acc["distinct_cases"] = acc.get("distinct_cases", 0) + s["distinct_expected"]
    acc["instances"].append(dict(name=name, kind="exhaustive case family", function=fn, cases=s["cases"],
                                 distinct_expected_results=s["distinct_expected"], mismatches=s["mismatches"],
                                 tlc_wall_s=round(res["wall"], 1), replay_wall_s=round(wall, 1)))
    for smp in (s.get("samples") or [])[:1]:
        acc["samples"].append(dict(kind="case", function=fn, family=family, **smp))
    acc["known_asbuilt"] = acc.get("known_asbuilt", 0) + s.get("known_asbuilt", 0)
    nv = 0
    for rec in lib.read_ndjson(mm):
        if rec.get("class", "").endswith("/asbuilt"):
            f = findings.match(prop, rec["class"])
            if f is not None:
                v.known_finding("%s: %d of %d cases of family %s show exactly the listed as-built outcome (%s)" % (
                    rec["class"], s.get("known_asbuilt", 0), s["cases"], family, f["_line"][:120]))
                continue
        nv += 1
        if nv <= 3:
            triage(v, findings, prop, harness, rec, None)


def check_cases_stage(work, v, findings, prop, harness, acc, module, fn, n, depth=3, forms=True, salt=0, timeout=1200):
    """code -> spec for a pure function: seeded random inputs, the real
    function's results recorded, every line validated by a Check_*.tla module."""
    name = "%s_%s" % (module, fn)
    casef = work.path("rand_%s.ndjson" % name)
    cmd = [harness, "treegen", "-fn", fn, "-n", str(n), "-depth", str(depth), "-seed", str(lib.seed() * 15485863 + salt), "-out", casef]
    if not forms:
        cmd.append("-forms=false")
    rc, out, _ = lib.run(cmd, timeout=900)
    if rc != 0:
        raise Infra("treegen failed: " + out[-2000:])
    n = json.loads(out.strip().splitlines()[-1])["cases"]
    result = work.path("randres_%s.json" % name)
    cfg = "\n".join(["SPECIFICATION Spec", "CONSTANTS", '  CASEFILE = "%s"' % casef, '  RESULT = "%s"' % result,
                     "INVARIANT Done", "CHECK_DEADLOCK FALSE", ""])
    res = lib.tlc(work, "chk_" + name, module, cfg, workers=1, timeout=timeout)
    if not os.path.exists(result):
        raise Infra("%s wrote no result" % module)
    r = json.load(open(result))
    if r["consumed"] != n or r["lines"] != n:
        raise Infra("%s consumed %s of %s lines" % (module, r["consumed"], n))
    acc["states"] += res["distinct"]; acc["traces"] += n; acc["trace_events"] += n; acc["evaluations"] += n
    acc["tv"].append(dict(name="random-" + name, cases=n, max_depth=depth, alias_forms=forms, rejected_lines=len(r["bad"]),
                          known_asbuilt=r.get("known", 0), outside_domain=r.get("outside", 0), tlc_wall_s=round(res["wall"], 1)))
    if r.get("known", 0) > 0:
        sig = "%s/%s/asbuilt" % (prop, fn)
        f = findings.match(prop, sig)
        if f is None:
            raise Infra("as-built outcomes observed for %s but no open finding %s is listed" % (fn, sig))
        v.known_finding("%s: %d random inputs show exactly the listed as-built outcome (%s)" % (sig, r["known"], f["_line"][:120]))
    if r["bad"]:
        lines = lib.read_ndjson(casef)
        for b in r["bad"][:3]:
            c = lines[b["line"] - 1]
            rec = dict(property=prop, kind="case", fn=fn, exp=b["exp"], got=c["out"], detail=["line %d rejected by %s" % (b["line"], module),
                       "expected %s" % json.dumps(b["exp"])[:300], "observed %s" % json.dumps(c["out"])[:300]],
                       **{"in": c["in"], "class": "%s/%s/case" % (prop, fn)})
            if "arg" in c:
                rec["arg"] = c["arg"]
            triage(v, findings, prop, harness, rec, None)
    else:
        c = lib.read_ndjson(casef, limit=3)[-1]
        acc["samples"].append(dict(kind="validated-random-case", function=fn, input=c["in"], observed=c["out"]))


def sm_check(work, v, prop, tier, tables, traces, fields, design_props, note, frames=(), ctraces=(), gens=(), rands=(), extra_cov=None):
    findings = Findings()
    harness = lib.build_harness(work)
    acc = dict(states=0, transitions=0, generated=0, traces=0, evaluations=0, trace_events=0,
               transitions_replayed=0, instances=[], tv=[], samples=[])
    for name, c in tables:
        cc = dict(COND_DEFAULT if c.get("machine") == "cond" else SM_DEFAULT)
        cc.update(c)
        sm_table_stage(work, v, findings, prop, harness, name, cc, fields, acc)
    for name, t in traces:
        # thorough: five independent chunks per trace stage (keeps each TLC input below ~300 MB)
        for k in range(1 if tier == "quick" else 5):
            sm_trace_stage(work, v, findings, prop, harness, "%s%d" % (name, k), dict(t, salt=t.get("salt", 0) + 100 * k), t.get("fields", fields), acc)
    for name, t in ctraces:
        for k in range(1 if tier == "quick" else 5):
            cond_trace_stage(work, v, findings, prop, harness, "%s%d" % (name, k), dict(t, salt=t.get("salt", 0) + 100 * k), t.get("fields", COND_FIELDS), acc)
    for fr in frames:
        frame_stage(work, v, findings, prop, harness, acc=acc, **fr)
    for gs in gens:
        gen_cases_stage(work, v, findings, prop, harness, acc, **gs)
    for rs in rands:
        # large thorough runs are split into chunks (one TLC validation per chunk)
        n, k = rs["n"], 0
        while n > 0:
            part = dict(rs, n=min(n, 50000), salt=rs.get("salt", 0) + 1000 * k)
            check_cases_stage(work, v, findings, prop, harness, acc, **part)
            n -= part["n"]
            k += 1
    v.cov = dict(
        states=acc["states"], transitions=acc["transitions"],
        traces_validated_against_impl=acc["traces"],
        samples=acc["samples"][:6],
        evaluations=acc["evaluations"],
        distinct_nontrivial=(acc["transitions"] + acc["trace_events"]) if not acc.get("distinct_cases") else
                            (acc["distinct_cases"] + sum(i.get("table_transitions", 0) for i in acc["instances"])),
        rule="distinct = distinct abstract transitions (state, call) of the TLC-enumerated table, each replayed "
             "on the real package, plus recorded random-history events validated by the trace spec; "
             "non-trivial = the call is enabled in a live state of the bounded instance",
        exhaustive=True,
        checker_cmd="tlc -workers 1 -config MC.cfg Stackage.tla ; harness table ... ; harness tracegen ... ; tlc -config TR.cfg StackageTrace.tla",
        tlc_generated_states=acc["generated"], transitions_replayed_from_built_state=acc["transitions_replayed"],
        bounded_instances=acc["instances"], trace_validation=acc["tv"],
        observables_compared=fields, design_properties_checked_by_tlc=design_props,
        methods_enumerated_by_reflection=sorted(acc.get("methods", [])),
        explanation=note)
    v.cov.update(extra_cov or {})
    v.assumptions = [
        "exhaustive only within the stated constants; beyond them coverage is seeded-random and validated, not exhaustive",
        "harness concretiser/projector tables (value name <-> Go value) and the VerifDump hook are trusted",
        "TLC 1.8.0 + CommunityModules Json/IOUtils are trusted",
    ]
    return v.finish()


IDX4 = [[], ["neg"], ["fwd"], ["neg", "fwd"]]
C01_FIELDS = ["init", "len", "idx", "front", "back", "empty", "elems", "fifo", "integ", "locked"]


@check("C01")
def c01(work, v, tier):
    if tier == "quick":
        tables = [("core", dict(Caps=[0, 1, 2, 3], InitOpts=IDX4, MaxLen=3, depth=2, walks=400, wlen=40)),
                  ("kinds", dict(Caps=[0, 2], Kinds=["AND", "OR", "NOT", "LIST", "BASIC"], MaxLen=2, Vals=["nil", "a"], IdxMode="all",
                                 InitOpts=[[], ["neg", "fwd"]], depth=2, walks=100, wlen=30))]
        traces = [("rand", dict(traces=150, len=60, fams=["list", "idxopts"], mode="all"))]
    else:
        tables = [("core", dict(Caps=[0, 1, 2, 3, 4], InitOpts=IDX4, MaxLen=4, depth=2, walks=3000, wlen=80)),
                  ("deep", dict(Caps=[0, 2], InitOpts=[[], ["neg", "fwd"]], MaxLen=3, Vals=["nil", "a"], PushLens=[1], depth=3, walks=500, wlen=60)),
                  ("kinds", dict(Caps=[0, 2], Kinds=["AND", "OR", "NOT", "LIST", "BASIC"], MaxLen=3, IdxMode="all",
                                 InitOpts=IDX4, depth=2, walks=1000, wlen=60))]
        traces = [("rand", dict(traces=1500, len=100, fams=["list", "idxopts"])),
                  ("long", dict(traces=200, len=400, fams=["list", "idxopts"], maxlen=40, nvals=100, salt=1))]
    return sm_check(work, v, "C01", tier, tables, traces, C01_FIELDS,
                    ["TypeOK", "CapInv", "StepProps(LenDelta, ListLaws: Reverse/Swap involutions, Pop=Front)", "FifoLatch"],
                    "ordered-list semantics: Stackage.tla enumerated exhaustively within the constants; every "
                    "transition, every path to the stated depth and seeded random walks replayed on the real Stack with "
                    "Len/Index(-L-1..L+1)/Front/Back/IsEmpty/raw slots compared after every step; random longer "
                    "histories recorded from the real Stack accepted line by line by StackageTrace.tla")


C03_FIELDS = ["init", "len", "cap", "avail", "full", "elems", "integ", "locked"]


@check("C03")
def c03(work, v, tier):
    q = tier == "quick"
    tables = [("cap", dict(Caps=[1, 2, 3], MaxLen=3, Fams=["list", "marshal"], depth=2, walks=300, wlen=50)),
              ("xfer", dict(Caps=[1, 2, 3], Vals=["nil", "a"], MaxLen=3, Fams=["grow", "transfer"],
                            DstCaps=[0], DstOps=["push", "pop"], depth=2, walks=300, wlen=50)),
              ("cap-pol", dict(Caps=[1, 2], Vals=["nil", "a"], MaxLen=2, Fams=["grow", "policy", "marshal"], PushLens=[1, 2, 3], depth=2, walks=200, wlen=40)),
              ("nocap", dict(Caps=[0], MaxLen=3, Vals=["nil", "a"], Kinds=["AND", "LIST", "BASIC"], Fams=["grow", "marshal"], depth=2, walks=50)),
              # refused values (Stacks under no-nesting) do not use up room: the earliest ADMISSIBLE values are kept
              ("cap-nn", dict(Caps=[2, 3], Vals=["a", "b", "S"], MaxLen=3, InitOpts=[["nnest"], []], Fams=["grow"], PushLens=[2, 3, 4], depth=2, walks=100, wlen=30))]
    traces = [("rand", dict(traces=150 if q else 2000, len=80, fams=["list", "transfer", "marshal", "policy"], caps="1,2,3,4,5,0", maxlen=12, nvals=6))]
    if not q:
        tables = [("cap", dict(Caps=[1, 2, 3, 4], MaxLen=4, Fams=["list", "marshal"], depth=2, walks=3000, wlen=80)),
                  ("xfer", dict(Caps=[1, 2, 3], MaxLen=3, Vals=["nil", "a"], Fams=["grow", "transfer"],
                                DstCaps=[0, 2], DstOps=["push", "pop"], depth=2, walks=3000, wlen=80)),
                  ("cap-pol", dict(Caps=[1, 2, 3], MaxLen=3, Fams=["grow", "policy", "marshal"], PushLens=[1, 2, 3], depth=2, walks=2000, wlen=60)),
                  ("nocap", dict(Caps=[0], MaxLen=4, Kinds=["AND", "OR", "NOT", "LIST", "BASIC"], Fams=["grow", "marshal"], depth=3, walks=500)),
                  ("cap-nn", dict(Caps=[2, 3, 4], Vals=["a", "b", "S", "A"], MaxLen=4, InitOpts=[["nnest"], []], Fams=["grow"], PushLens=[2, 3, 4], depth=2, walks=2000, wlen=40))]
        traces.append(("boundary", dict(traces=1000, len=120, fams=["list", "transfer", "marshal"], caps="1,2,3", maxlen=6, salt=2)))
    # the integer core: IndInv (CapInv /\ CapObs) is inductive for EVERY capacity and length (Apalache, unbounded
    # integers); Stackage.tla's StepProps ties each of its transitions to a CapCore step (CapRefines)
    core = [lib.apalache(work, "capcore-init", "CapCore", "Init", "IndInv", 0),
            lib.apalache(work, "capcore-step", "CapCore", "IndInit", "IndInv", 1)]
    return sm_check(work, v, "C03", tier, tables, traces, C03_FIELDS,
                    ["CapInv (Len <= cap in every reachable state of both handles)", "CapObs (Cap/Avail/IsFull agree with (cap, Len))",
                     "StepProps: no enabled transition leaves a state with Len > cap; Insert on a full stack is a stutter",
                     "CapRefines: the (Len, cap) projection of every transition is a step of CapCore.tla, whose invariant "
                     "Apalache proves inductive over unbounded integers (Init => IndInv; IndInv /\\ Next => IndInv')"],
                    "capacity: all growth actions (Push batches, Insert, Transfer-into, Marshal-into) interleaved with "
                    "Pop/Remove/Reset around the boundary; Len/Cap/Avail/IsFull and the raw slots compared after every step",
                    extra_cov=dict(unbounded_integer_core=core))


C08_FIELDS = [f for f in ALL_FIELDS if f != "cannest"]


@check("C08")
def c08(work, v, tier):
    q = tier == "quick"
    tables = [("idx", dict(Caps=[0, 3], InitOpts=IDX4, MaxLen=3 if q else 4, IdxMode="all", Fams=["list", "query"],
                           depth=2 if q else 2, walks=300 if q else 20000, wlen=40)),
              ("idxmtx", dict(Caps=[0, 2], InitOpts=[[], ["neg", "fwd"]], InitMtx=[True], Vals=["nil", "a"], MaxLen=2 if q else 3, IdxMode="all",
                              Fams=["list", "query"], PushLens=[1], depth=2, walks=200 if q else 10000, wlen=40)),
              ("idxkinds", dict(Caps=[0], Kinds=["OR", "NOT", "LIST", "BASIC"], InitOpts=[[], ["neg", "fwd"]], Vals=["nil", "a"],
                                MaxLen=2 if q else 4, IdxMode="all", Fams=["list", "query"], PushLens=[1], depth=2, walks=100))]
    traces = [("rand", dict(traces=150 if q else 2000, len=60, fams=["list", "idxopts", "query"], mode="all"))]
    return sm_check(work, v, "C08", tier, tables, traces, C08_FIELDS,
                    ["StepProps over IdxMode=all: every index in -(L+1)..L+1 plus the MinInt/MaxInt stand-ins is an enabled call; "
                     "a call that addresses no element is a stutter returning failure (Lookup semantics of negative / forward indices)"],
                    "index robustness: every method taking an int x every index class x lengths 0..4 x the four index-option sets; "
                    "after each call IsInit, Kind, Len, every Index, the configuration record (VerifDump) and the raw slots are re-validated. "
                    "value robustness: every method with an any / ...any / Operator parameter (found by reflection) x a catalogue of 38 awkward "
                    "Go values, each followed by a usability probe (String/Unmarshal/IsEqual/Index/Traverse/Less/Valid) -- Frame.tla's AwkwardRule. "
                    "Traverse with index paths that fail at some level (every path of length 0-3 over -1..width+1 on all depth-2 trees, random deeper ones): "
                    "a failed descent reports failure, it is never resumed on an outer level",
                    frames=[dict(mode="awkward")],
                    gens=[dict(module="Gen_Traverse", family="d2", fn="traverse", consts=dict(Width=2, MaxPath=3), timeout=3000)],
                    rands=[dict(module="Check_Traverse", fn="traverse", n=1500 if q else 100000, depth=3, salt=8)])


RO_NOTE = ("read-only frame: (1) the state machine with every call family enabled from read-only and writable initial "
           "configurations (TLC checks ReadOnlyFrame on every enabled transition; table and traces replayed on the real Stack); "
           "(2) every exported method of Stack and Condition, enumerated by reflection, called with synthesised argument tuples on "
           "read-only receivers singly and in random sequences; each recorded event is validated by Frame.tla's ReadOnlyRule, then the "
           "flag is cleared (state must equal the state at flag-set time) and a setter must work again (ProbeRule)")


ALLFL = ["paren", "fold", "nspad", "lonce", "neg", "fwd", "ronly", "nnest"]


@check("C09")
def c09(work, v, tier):
    q = tier == "quick"
    tables = [("ro-list", dict(Caps=[0, 2], InitOpts=[["ronly"]], Vals=["nil", "a"], MaxLen=2 if q else 3, IdxMode="all",
                               Fams=["list", "query", "marshal", "opts"], OptFlags=["ronly"], PushLens=[1],
                               depth=2, walks=200 if q else 10000, wlen=30)),
              ("ro-defrag", dict(Caps=[0], InitOpts=[["ronly"]], Vals=["nil", "a"], MaxLen=2, Fams=["defrag", "marshal"], depth=2, walks=20, wlen=10)),
              ("ro-cfg", dict(InitOpts=[["ronly"]], MaxLen=0, Fams=["opts", "life"], OptFlags=ALLFL, depth=2 if q else 3, walks=200 if q else 10000, wlen=30)),
              ("ro-set", dict(Kinds=["AND", "LIST"], InitOpts=[["ronly"]], MaxLen=1, Vals=["a"], PushLens=[1],
                              Fams=["settings", "policy", "opts"], OptFlags=["ronly"], depth=2, walks=200 if q else 10000, wlen=30))]
    tables.append(("cond-ro", dict(machine="cond", KwArgs=["k", "nil"], OpArgs=["Eq", "user", "nil"], ExArgs=["nil", "s:v", "S"],
                                   CFams=["set", "opts", "life", "closures"], COptFlags=["ronly"], depth=2, walks=300 if q else 20000)))
    tables.append(("cond-ro-set", dict(machine="cond", KwArgs=["k"], OpArgs=["Eq"], ExArgs=["s:v"],
                                       CFams=["settings", "opts"], COptFlags=["ronly", "paren"], depth=2, walks=200 if q else 10000)))
    traces = [("rand", dict(traces=150 if q else 1500, len=80, fams=["list", "opts", "policy", "life", "settings", "marshal"], mode="all"))]
    return sm_check(work, v, "C09", tier, tables, traces, ALL_FIELDS,
                    ["StepProps: ReadOnlyFrame over the whole action alphabet (only SetReadOnly / SetErr change a read-only state; Free returns an error)"],
                    RO_NOTE + "; the Condition's read-only frame (CROFrame) in a CondMC instance and CondTrace histories",
                    frames=[dict(mode="ronly", seqs=60 if q else 600)], ctraces=[("rand", dict(traces=200 if q else 2000, len=50))])


@check("C17")
def c17(work, v, tier):
    q = tier == "quick"
    tables = [("life-list", dict(Caps=[0, 2], Kinds=["AND", "BASIC"], Vals=["nil", "a"], MaxLen=2 if q else 3, IdxMode="all",
                                 Fams=["list", "life", "marshal", "query"], PushLens=[1, 2],
                                 depth=2, walks=300 if q else 20000, wlen=30)),
              ("life-cfg", dict(MaxLen=0, Fams=["opts", "life"], OptFlags=ALLFL, depth=2, walks=100 if q else 1000, wlen=30)),
              ("life-set", dict(Kinds=["AND", "LIST"], MaxLen=1, Vals=["a"], PushLens=[1], Fams=["settings", "policy", "life"],
                                depth=2, walks=100 if q else 1000, wlen=30))]
    tables.append(("cond-life", dict(machine="cond", KwArgs=["k", "nil"], OpArgs=["Eq", "nil"], ExArgs=["nil", "s:v", "S"],
                                     CFams=["set", "cond", "opts", "life", "settings"], COptFlags=["ronly"], depth=2, walks=300 if q else 20000)))
    traces = [("rand", dict(traces=200 if q else 2000, len=60, fams=["list", "opts", "life", "settings", "marshal", "query"], mode="all"))]
    return sm_check(work, v, "C17", tier, tables, traces, ALL_FIELDS,
                    ["StepProps: Inert (a dead handle stays dead, every call returns its zero result, only Marshal initialises)",
                     "Free => DeadState unless read-only; Reset => e = <<>> with the configuration unchanged"],
                    "lifecycle: zero / freed / live handles in one state machine (Free, Marshal-as-initialiser, Reset with nil elements) + "
                    "every exported method of Stack and Condition enumerated by reflection and called on zero and freed receivers with "
                    "plain and awkward arguments; Frame.tla's InertRule requires no panic, no resurrection (except Marshal / Init), zero results "
                    "(documented sentinels Kind/ID/Addr/IsEmpty/IsZero/IsPadded and the errors of Valid/IsEqual/Marshal excepted)",
                    frames=[dict(mode="dead")])


C13_FIELDS = ["init", "len", "elems", "cannest", "nesting", "bits", "integ"]


@check("C13")
def c13(work, v, tier):
    q = tier == "quick"
    vals = ["nil", "a", "S", "A", "P", "C", "CS"]
    tables = [("nest", dict(Caps=[0, 2], Kinds=["AND", "OR", "NOT", "LIST", "BASIC"] if not q else ["AND", "LIST", "BASIC"], Vals=vals,
                            MaxLen=2 if q else 3, InitOpts=[[], ["nnest"]], Fams=["grow", "opts"], OptFlags=["nnest"],
                            PushLens=[1, 2], depth=2, walks=300 if q else 20000, wlen=40))]
    tables.append(("cond-nn", dict(machine="cond", KwArgs=["k"], OpArgs=["Eq"], ExArgs=["nil", "s:v", "S", "A", "P", "C"],
                                   CFams=["set", "opts", "life"], COptFlags=["nnest", "ronly"], depth=3, walks=300 if q else 20000)))
    traces = [("rand", dict(traces=200 if q else 2000, len=60, fams=["list", "opts"], nest=True, nvals=6))]
    return sm_check(work, v, "C13", tier, tables, traces, C13_FIELDS,
                    ["StepProps: NoNestPush (with no-nesting on, Push keeps exactly the non-Stack values, in order)",
                     "OptIndependence / switching the option never changes the content", "Obs: CanNest <=> no-nesting unset, IsNesting <=> some element is Stack-valued"],
                    "no-nesting on Stacks: push batches mixing native Stacks, aliases, pointers to aliases, Conditions, primitives and nil, "
                    "interleaved with set / clear / toggle of the option, on every kind; content, CanNest, IsNesting and the raw option bits "
                    "compared after every step; the Condition side (SetExpression refuses a Stack / alias / pointer while no-nesting is set, "
                    "switching never touches the stored expression, CanNest / IsNesting) in a CondMC instance and in CondTrace histories",
                    ctraces=[("rand", dict(traces=200 if q else 2000, len=50, fields=["init", "ex", "nesting", "cannest", "bits", "len"]))],
                    rands=[dict(module="Check_Measure", fn="measure", n=2000 if q else 100000, depth=3, salt=13)])


C14_FIELDS = ["init", "len", "elems", "err", "integ", "valid", "strsrc", "eqsrc", "umsrc", "kind", "less"]


@check("C14")
def c14(work, v, tier):
    q = tier == "quick"
    tables = [("policy", dict(Caps=[0, 1, 2], Vals=["nil", "a", "b"], MaxLen=3, Fams=["grow", "policy", "err"], PushLens=[1, 2, 3],
                              depth=2, walks=300 if q else 20000, wlen=40))]
    # a push policy takes the place of the no-nesting filter: what it approves is stored, Stacks included
    tables.append(("pol-nn", dict(Caps=[0, 2], Vals=["a", "S", "A"], MaxLen=2, InitOpts=[[], ["nnest"]], InitMtx=[False, True], OptFlags=["nnest"], Fams=["grow", "policy", "opts"], PushLens=[1, 2],
                                  depth=2, walks=200 if q else 10000, wlen=30)))
    tables.append(("closures", dict(Caps=[0], Kinds=["AND", "OR", "NOT", "LIST", "BASIC"], Vals=["a"], MaxLen=1, PushLens=[1], InitOpts=[[], ["paren"]],
                                    Fams=["closures", "grow", "marshal"], depth=2, walks=300 if q else 20000, wlen=40)))
    tables.append(("less", dict(Caps=[0], Kinds=["AND"], Vals=["nil", "a", "b", "S", "A"], MaxLen=2 if q else 3, PushLens=[1, 2], InitOpts=[[], ["neg", "fwd"]],
                                Fams=["lessfn", "grow", "list"], depth=2, walks=300 if q else 20000, wlen=40)))
    tables.append(("cond-closures", dict(machine="cond", KwArgs=["k", ""], OpArgs=["Eq", "nil"], ExArgs=["nil", "s:v", "S"],
                                         CFams=["set", "closures", "life"], COptFlags=[], depth=2, walks=200 if q else 10000)))
    # Marshal stores a nested Stack whose TEXT the list model abstracts away (value class S / Z): `less` is compared in the traces without it
    nl = [f for f in C14_FIELDS if f != "less"]
    traces = [("rand", dict(traces=200 if q else 2000, len=60, fams=["list", "policy", "life"], nvals=5, caps="0,1,2,3,5")),
              ("closures", dict(traces=200 if q else 2000, len=60, fams=["list", "closures", "marshal", "opts"], nvals=4, salt=3, fields=nl)),
              ("less", dict(traces=200 if q else 2000, len=60, fams=["list", "closures", "opts"], nvals=4, salt=5))]
    return sm_check(work, v, "C14", tier, tables, traces, C14_FIELDS,
                    ["StepProps: PolicyDecides (nothing rejected is stored; consult log <= offered; a full stack is never consulted; Err set only after a rejection)",
                     "ClosuresDecide (Valid reports an error exactly when the validity closure does; a rejected stack renders empty; removing a closure restores the "
                     "built-in behaviour; BASIC refuses a presentation policy, records an error, renders empty)"],
                    "push policy: all batches of length 1-3 over {nil,a,b} against every accept-set (all 8 subsets) with and without capacity; "
                    "the Go closure records its consult log, which is part of the compared return value (count and order). Other closures: every install / remove "
                    "sequence (depth 2 exhaustive, random longer) of validity (approving / rejecting), presentation, equality, unmarshal and marshal closures on "
                    "all five kinds (and validity / presentation on Conditions); after every step Valid(), the source of String() (empty / closure / built-in), of "
                    "IsEqual and of Unmarshal, and Marshal's result are compared",
                    ctraces=[("rand", dict(traces=200 if q else 2000, len=50, fields=["init", "valid", "str", "err", "kw", "op", "ex"]))])


C15_FIELDS = ["init", "len", "elems", "cap", "ronly", "err", "integ", "fifo", "bits"]


@check("C15")
def c15(work, v, tier):
    q = tier == "quick"
    tables = [("xfer", dict(Caps=[0], Vals=["nil", "a"], MaxLen=3 if q else 4, Fams=["grow", "transfer"], PushLens=[1, 2],
                            DstCaps=[0, 1, 2, 3] if q else [0, 1, 2, 3, 4, 5], DstOps=["push", "pop", "ronly"], depth=2,
                            walks=300 if q else 20000, wlen=40)),
              # a destination with a capacity AND a push policy (approving everything): too little room is still refused outright
              ("xfer-pol", dict(Caps=[0], Vals=["a", "b"], MaxLen=3, Fams=["grow", "transfer"], PushLens=[1, 2],
                                DstCaps=[2, 4], DstOps=["push", "policy"], depth=2, walks=100, wlen=30)),
              ("xfer-nn", dict(Caps=[0], Vals=["a", "S"], MaxLen=3, Fams=["grow", "transfer"], PushLens=[1],
                               DstCaps=[0, 2], DstOps=["push", "nnest"], depth=2, walks=100, wlen=30))]
    traces = [("rand", dict(traces=200 if q else 2000, len=60, fams=["list", "transfer"], caps="0,1,2,3,5,8", nest=True, nvals=6))]
    return sm_check(work, v, "C15", tier, tables, traces, C15_FIELDS,
                    ["StepProps: TransferFrame (source unchanged in every case; true => dst' = dst ++ src; too little room / read-only / zero / "
                     "foreign destination => false and dst unchanged; enough room and no filter => true)"],
                    "Transfer: every (source length, destination length, destination capacity) combination within the bounds, destinations "
                    "handed over as native Stack, alias, pointer to alias and foreign value, read-only / zero destinations, LIFO and FIFO sources "
                    "with nil elements; both handles observed in full after every step")


C18_FIELDS = ["init", "bits", "ronly", "paren", "padded", "cannest", "fifo", "id", "cat", "delim", "sym", "enc", "isenc", "elems", "len", "kind", "integ", "loglevels", "aux", "logger"]


@check("C18")
def c18(work, v, tier):
    q = tier == "quick"
    tables = [("flags", dict(Kinds=["AND"], MaxLen=1, Vals=["a"], PushLens=[1], Fams=["opts", "grow"], OptFlags=ALLFL,
                             depth=3 if q else 4, walks=300 if q else 20000, wlen=40)),
              ("settings", dict(Kinds=["AND", "LIST", "BASIC"], MaxLen=0, Fams=["settings", "opts"], OptFlags=["fold", "ronly"],
                                depth=2, walks=300 if q else 20000, wlen=40))]
    tables.append(("cond-loglevel", dict(machine="cond", KwArgs=["k"], OpArgs=["Eq"], ExArgs=["s:v"], CFams=["loglevel", "opts"], COptFlags=["ronly"],
                                         depth=2, walks=200 if q else 10000)))
    tables.append(("cond-flags", dict(machine="cond", KwArgs=["k"], OpArgs=["Eq"], ExArgs=["s:v"], CFams=["opts", "settings", "set"],
                                      depth=3 if q else 4, walks=300 if q else 20000)))
    tables.append(("auxlog", dict(Kinds=["AND", "BASIC"], MaxLen=0, Fams=["aux", "opts"], OptFlags=["ronly"], depth=2 if q else 3, walks=200 if q else 10000, wlen=40)))
    tables.append(("loglevel", dict(Kinds=["AND"], MaxLen=0, Fams=["loglevel", "opts"], OptFlags=["ronly"], depth=2 if q else 3, walks=300 if q else 20000, wlen=40)))
    traces = [("rand", dict(traces=200 if q else 2000, len=80, fams=["opts", "settings", "list", "loglevel", "aux"], nvals=4))]
    return sm_check(work, v, "C18", tier, tables, traces, C18_FIELDS,
                    ["StepProps: OptIndependence (a switch changes exactly its own flag, nothing else; on / off / toggle semantics)",
                     "FifoLatch (temporal action property)"],
                    "options: exhaustive sequences of {set, clear, toggle} x 8 options to depth 3 (quick) / 4 (thorough) with the raw option bits "
                    "read through the verif hook and the getters compared; ID, category, delimiter (LIST only), symbol (non-LIST only) and "
                    "encapsulation pairs (duplicate characters refused) in a second instance; random longer mixed sequences validated as traces. "
                    "Auxiliary map (none / fresh / the caller's map by reference) and logger selection (names in any case, 0/1/2, *log.Logger, junk) in instance 'auxlog'. "
                    "Log levels: SetLogLevel / UnsetLogLevel with names (any case), LogLevel constants and raw integers, the none / all shortcuts, "
                    "multi-argument calls; LogLevels() text compared (instance 'loglevel' + random traces over all 16 bits). "
                    "The Condition's four switches (parenthetical, no-padding, no-nesting, read-only), ID, category and encapsulation in a CondMC instance "
                    "to the same depth and in CondTrace histories",
                    ctraces=[("rand", dict(traces=200 if q else 2000, len=50))])


@check("C06")
def c06(work, v, tier):
    q = tier == "quick"
    full_ops = ["Eq", "Ne", "Lt", "Gt", "Le", "Ge", "op0", "op9", "user", "emptytext", "emptyctx", "nil"]
    tables = [("cond", dict(machine="cond", depth=2, walks=400 if q else 20000, wlen=40)),
              ("cond-closures", dict(machine="cond", KwArgs=["k", ""], OpArgs=["Eq", "nil"], ExArgs=["nil", "s:v", "S"],
                                     CFams=["set", "closures", "life"], COptFlags=[], depth=2, walks=200 if q else 10000)),
              ("cond-enc", dict(machine="cond", KwArgs=["k"], OpArgs=["Ge"], ExArgs=["s:v", "i:5", "C"], CFams=["set", "settings", "opts"],
                                COptFlags=["paren", "nspad"], depth=2, walks=200 if q else 10000))]
    if not q:
        tables.append(("cond-full", dict(machine="cond", OpArgs=full_ops, KwArgs=["k", "kw2", "", "stringer", "nil", "int"],
                                         ExArgs=["nil", "s:v", "s:w x", "s:", "i:5", "b:t", "S", "A", "P", "C", "str"], depth=3, walks=4000, wlen=60)))
    return sm_check(work, v, "C06", tier, tables, [], COND_FIELDS,
                    ["CStepProps: Holds (accepted arguments are stored, rejected ones leave kw/op/ex unchanged)",
                     "ValidDef (Valid nil iff keyword non-empty, operator present and in range, expression non-nil)",
                     "ValidGatesString (String empty iff Valid fails)", "CROFrame", "CNoNest", "COptInd", "CInert"],
                    "Condition state machine (CondCore.tla): all setter histories over accepted and rejected arguments (nil, empty, wrong type, "
                    "stringers, built-in / out-of-range / user / empty-text / empty-context / nil operators, Stack / alias / Condition expressions) "
                    "x {no-nesting, no-padding, parenthetical, encapsulation} starting from Cond(...) and Init(); Keyword / Operator / Expression, "
                    "Valid() and the exact String() text compared after every step; random histories validated by CondTrace.tla",
                    ctraces=[("rand", dict(traces=300 if q else 3000, len=50))])


@check("C02")
def c02(work, v, tier):
    q = tier == "quick"
    fams = ["root", "child", "shape1", "shape2", "deep", "alias"] + ([] if q else ["shape3"])
    return sm_check(work, v, "C02", tier, [], [], [],
                    ["RdLaws on every generated tree: output has no double blank and no blank at either end; Condense idempotent; "
                     "a stack renders exactly like the same stack without the children that contribute nothing (no dangling operator); BASIC renders empty"],
                    "String() against the token-level grammar of spec/Render.tla. spec -> code: TLC enumerates exhaustive families (every option "
                    "combination on the root and on a nested stack; all child sequences up to width 2-3 over 22 alternatives: leaves with embedded / "
                    "leading / trailing blanks, the empty string, 2-/3-/4-byte runes, numbers, bools, empty / BASIC / NOT / folded NOT / symbol NOT / "
                    "parenthetical stacks, valid and invalid Conditions; nesting depth 3; alias forms) and the real String() is compared token by token. "
                    "code -> spec: random trees of depth <= 3-4 with independent random configuration on every node, arbitrary token mixes and alias "
                    "forms are rendered by the real code and accepted line by line by Check_Render.tla",
                    gens=[dict(module="Gen_Render", family=f, fn="render") for f in fams],
                    rands=[dict(module="Check_Render", fn="render", n=4000 if q else 300000, depth=3 if q else 4)])


@check("C07")
def c07(work, v, tier):
    q = tier == "quick"
    mp = 3 if q else 5
    gens = [dict(module="Gen_Traverse", family="d1", fn="traverse", consts=dict(Width=3, MaxPath=3 if q else 4)),
            dict(module="Gen_Traverse", family="d2", fn="traverse", consts=dict(Width=2, MaxPath=mp), timeout=3000),
            dict(module="Gen_Traverse", family="d3", fn="traverse", consts=dict(Width=2, MaxPath=mp), timeout=3000)]
    return sm_check(work, v, "C07", tier, [], [], [],
                    ["Laws: for every generated tree and EVERY path, the recursive TraverseSpec equals the stepwise IndexDescent of the statement; the empty path fails"],
                    "Traverse against spec/Traverse.tla. spec -> code: all trees of depth <= 3, width <= 2-3 (leaves, nil slots, nested stacks with their own "
                    "negative / forward index options, alias and pointer forms, Conditions with leaf / Stack expressions) x ALL index paths of length "
                    "0..3 (quick) / 0..5 (thorough) over -1..width+1; the value returned by the real Traverse is mapped back to a structural address by object "
                    "identity and compared. code -> spec: random deeper / wider trees (Condition-in-Condition chains included) with random paths validated by Check_Traverse.tla",
                    gens=gens, rands=[dict(module="Check_Traverse", fn="traverse", n=1500 if q else 100000, depth=3 if q else 4)])


@check("C19")
def c19(work, v, tier):
    q = tier == "quick"
    lims = "{0, 1, 2, 3}"
    gens = [dict(module="Gen_Defrag", family="top", fn="defrag", consts=dict(MaxLen=8 if q else 12, Limits=lims), timeout=3000),
            dict(module="Gen_Defrag", family="instack", fn="defrag", consts=dict(MaxLen=6 if q else 9, Limits=lims), timeout=3000),
            dict(module="Gen_Defrag", family="incond", fn="defrag", consts=dict(MaxLen=6 if q else 9, Limits=lims), timeout=3000),
            dict(module="Gen_Defrag", family="alias", fn="defrag", consts=dict(MaxLen=4 if q else 6, Limits="{0, 2}"), timeout=3000),
            dict(module="Gen_Defrag", family="deep", fn="defrag", consts=dict(MaxLen=5 if q else 8, Limits="{0, 2}"), timeout=3000),
            dict(module="Gen_Defrag", family="tnil", fn="defrag", consts=dict(MaxLen=5 if q else 7, Limits="{0, 2}"), timeout=3000),
            dict(module="Gen_Defrag", family="preerr", fn="defrag", consts=dict(MaxLen=6 if q else 9, Limits="{0, 2}"), timeout=3000)]
    return sm_check(work, v, "C19", tier, [], [], [],
                    ["Laws of DefragSpec on every generated input: no nil left anywhere, idempotent, a nil-free stack is untouched, Len = number of non-nil elements"],
                    "Defrag against spec/Defrag.tla: EVERY nil / non-nil pattern of length 0..8 (quick) / 0..12 (thorough) x scan limits {default,1,2,3} x the four "
                    "index-option sets x nesting position (top, inside a Stack at position 0 and 1, inside a Condition, alias / pointer forms), restricted to "
                    "the property's domain (every nil run shorter than the limit); the whole resulting tree and Err() are compared. The package's Defrag is "
                    "known to be wrong for almost every input with a gap (open finding; an existing test pins one wrong outcome): an outcome that equals "
                    "DefragAsBuilt - a transcription of defrag/implode/verifyImplode - on such an input is reported as KNOWN-FINDING, any other deviation "
                    "is a VIOLATION. Random longer patterns with nested pattern stacks are classified the same way by Check_Defrag.tla",
                    gens=gens, rands=[dict(module="Check_Defrag", fn="defrag", n=3000 if q else 200000, depth=2)])


@check("C20")
def c20(work, v, tier):
    q = tier == "quick"
    gens = [dict(module="Gen_Reveal", family=f, fn="reveal", invariants=("Laws", "Emit"), timeout=3000) for f in ["chain", "wide", "alias", "idx"]]
    return sm_check(work, v, "C20", tier, [], [], [],
                    ["RvLaws on the WHOLE Reach set of every generated tree: identical depth-first leaf sequence (with Condition keyword / operator), depth never grows, "
                     "parenthetical and NOT stacks survive in order, same fully-unwrapped normal form, the receiver itself is never replaced"],
                    "Reveal against spec/Reveal.tla: the specification is the set Reach(t) of trees obtainable by the one allowed rewrite; TLC proves the laws "
                    "for every member and emits the set; the real Reveal (run under a deadlock watchdog, mutex-enabled nodes included) must produce a member. "
                    "Families: chains of up to three single-child levels with every kind / parenthetical / mutex / fold / symbol mix over six bottoms, at the first and at "
                    "a later position of the parent; pairs of wrappers and Conditions holding wrappers; alias forms. Random trees of depth <= 4 are checked by Check_Reveal.tla",
                    gens=gens, rands=[dict(module="Check_Reveal", fn="reveal", n=3000 if q else 200000, depth=3 if q else 4)])


@check("C04")
def c04(work, v, tier):
    q = tier == "quick"
    fams = ["c04d1", "c04d2", "c04d3", "c04fold", "c04inv"]
    return sm_check(work, v, "C04", tier, [], [], [],
                    ["RoundTrip on every generated tree: Decode(UnmarshalSpec(t)) is well formed and equals Struct(t) (the design itself has the property)"],
                    "codec round trip against spec/Codec.tla: for all trees of depth <= 3, width <= 2 over the five kinds (empty ones included), Conditions whose "
                    "expression is a primitive / Stack / Condition, primitive and nil leaves: Unmarshal() must equal UnmarshalSpec(t); the result is marshalled "
                    "into a zero Stack (both call forms); the reconstruction is walked structurally (kinds, order, leaf types and values, Condition parts) and must "
                    "equal Struct(t); the second Unmarshal must be deeply equal (labels case-insensitively) and IsEqual must succeed both ways when no fold is involved. "
                    "Random deeper trees are validated by Check_Codec.tla",
                    gens=[dict(module="Gen_Codec", family=f, fn="codec") for f in fams],
                    rands=[dict(module="Check_Codec", fn="codec", n=3000 if q else 600000, depth=3 if q else 4)])


@check("C16")
def c16(work, v, tier):
    q = tier == "quick"
    return sm_check(work, v, "C16", tier, [], [], [],
                    ["Decode is total over the junk universe; for well-formed input the outcome is fully determined, for malformed input the specification leaves "
                     "error / content open but requires: returns normally, and an error or an initialised usable receiver"],
                    "Marshal robustness against spec/Codec.tla: junk []any trees (labels in three casings, unknown and empty labels, numbers, nil, typed nil pointers, "
                    "zero and ready-made Stacks / Conditions, valid / invalid / user / empty-text / nil operators, CONDITION rows malformed in every field, empty and "
                    "nested envelopes) x both call forms x zero and initialised receivers; no panic, 'error or initialised receiver', String / Unmarshal / IsEqual usable "
                    "afterwards; for well-formed input the decoded structure and the gained element are compared exactly",
                    gens=[dict(module="Gen_Codec", family=f, fn="codec") for f in ["c16flat", "c16nest"]],
                    rands=[dict(module="Check_Codec", fn="codec", n=3000 if q else 600000, depth=3 if q else 4, salt=5)])


@check("C05")
def c05(work, v, tier):
    q = tier == "quick"
    return sm_check(work, v, "C05", tier, [], [], [],
                    ["EqLaws on every generated tree: Eq reflexive; EVERY single point mutation (leaf, each slice / array / map element at every position, map key, "
                     "operator, keyword, kind, capacity, sibling swap, one element more or fewer) makes Eq false in both directions; neutral variations "
                     "(unexported struct field, presentation options) keep Eq true -- the oracle itself is mutation sensitive"],
                    "IsEqual against spec/Equal.tla: for each tree, the pair (tree, independently rebuilt copy) must give nil both ways, every (tree, single point "
                    "mutant) pair must give an error both ways, and neutral variations must give nil; leaves: int / string / bool / nil, pointers of depth 1-2, "
                    "slices and arrays of length 0-3 (mutation at every position), nested slices, maps with 0-2 keys (value and key mutations), structs with an "
                    "unexported field between exported ones; as a Stack element, as a Condition expression and nested (alias / pointer forms). No panic allowed. "
                    "Random pairs with random mutations are validated by Check_Equal.tla",
                    gens=[dict(module="Gen_Equal", family=f, fn="equal") for f in ["flat", "incond", "nested"]],
                    rands=[dict(module="Check_Equal", fn="equal", n=4000 if q else 800000, depth=2 if q else 3)])


@check("C12")
def c12(work, v, tier):
    q = tier == "quick"
    tables = [("nest-alias", dict(Caps=[0], Kinds=["AND", "LIST"], Vals=["a", "S", "A", "P"], MaxLen=2, InitOpts=[[], ["nnest"]], Fams=["grow", "opts"],
                                  OptFlags=["nnest"], PushLens=[1, 2], depth=2, walks=200 if q else 10000, wlen=30, fields=C13_FIELDS)),
              ("xfer-forms", dict(Caps=[0], Vals=["a", "S", "A"], MaxLen=3, Fams=["grow", "transfer"], PushLens=[1], DstCaps=[2], DstOps=["push", "nnest"],
                                  depth=2, walks=200 if q else 10000, wlen=30, fields=C15_FIELDS)),
              ("cond-alias", dict(machine="cond", KwArgs=["k"], OpArgs=["Eq"], ExArgs=["nil", "s:v", "S", "A", "P", "C"], CFams=["set", "opts"],
                                  COptFlags=["nnest"], depth=3, walks=200 if q else 10000))]
    gens = [dict(module="Gen_Render", family="alias", fn="render"),
            dict(module="Gen_Render", family="alias", fn="measure", invariants=("Laws", "EmitM")),
            dict(module="Gen_Equal", family="nested", fn="equal"),
            dict(module="Gen_Codec", family="c04fold", fn="codec"),
            dict(module="Gen_Traverse", family="d2", fn="traverse", consts=dict(Width=2, MaxPath=3 if q else 4), timeout=3000),
            dict(module="Gen_Defrag", family="alias", fn="defrag", consts=dict(MaxLen=4 if q else 6, Limits="{0, 2}")),
            dict(module="Gen_Reveal", family="alias", fn="reveal"),
            dict(module="Convert", family="all", fn="convert")]
    return sm_check(work, v, "C12", tier, tables, [], ALL_FIELDS,
                    ["every specification operator (Render, Canon/Eq, UnmarshalSpec, TraverseSpec, DefragSpec, Reach, Step) ignores the form of a nested node, so "
                     "alias-equivalence holds in the specification by construction; ConvertSpec: a value converts iff it is a non-zero native / alias / pointer-to-alias"],
                    "aliases: every generated tree family is instantiated with nested Stacks / Conditions independently replaced by {native, alias, alias with a "
                    "delegating String method, alias with an UNRELATED String method, pointer to alias}; the parent's String(), IsEqual against the natively built "
                    "tree in both directions, Unmarshal, Traverse, Defrag, Reveal must give the result the specification gives for the form-erased tree; IsNesting, "
                    "no-nesting refusal, Condition.Len / SetExpression and Transfer destinations in alias form are covered by state-machine instances with the value "
                    "classes S / A / P; ConvertStack / ConvertCondition over 17 value classes (zero aliases, nil pointers, unrelated types)",
                    gens=gens,
                    rands=[dict(module="Check_Render", fn="render", n=2000 if q else 20000, depth=3, salt=12),
                           dict(module="Check_Measure", fn="measure", n=2000 if q else 50000, depth=3, salt=12),
                           dict(module="Check_Equal", fn="equal", n=2000 if q else 20000, depth=2, salt=12)])


import re

RACE_ACCESS = re.compile(r"^(Read|Write|Previous read|Previous write) at ")


def parse_race_log(text):
    """-> list of dict(k1, f1, k2, f2, head) : one per race report"""
    out = []
    for blk in text.split("=================="):
        if "WARNING: DATA RACE" not in blk:
            continue
        acc = []
        cur = None
        for line in blk.splitlines():
            ls = line.strip()
            m = RACE_ACCESS.match(ls)
            if m:
                cur = dict(k=m.group(1), f="<none>")
                acc.append(cur)
                continue
            if ls.startswith("Goroutine "):
                cur = None
            if cur is not None and cur["f"] == "<none>" and "go-stackage." in ls and not ls.startswith("/"):
                fn = ls.split("go-stackage.", 1)[1]
                fn = fn[:fn.rfind("(")] if fn.endswith(")") else fn
                cur["f"] = fn
        if len(acc) >= 2:
            out.append(dict(k1=acc[0]["k"], f1=acc[0]["f"], k2=acc[1]["k"], f2=acc[1]["f"], head=blk.strip()[:1500]))
    return out


class FatalCrash(Exception):
    def __init__(self, text, cmd):
        Exception.__init__(self, text)
        self.text, self.cmd = text, cmd


def race_stage(work, v, findings, prop, acc, mode, cmd_args, name, confirm=None):
    """Free-running goroutines in a -race build; histories judged by LinTrace.tla,
    race reports classified by RaceClass.tla."""
    hr = lib.build_harness(work, race=True)
    histf = work.path("shist_%s.ndjson" % name)
    logf = work.path("race_%s.log" % name)
    env = dict(os.environ, GORACE="halt_on_error=0 exitcode=0 history_size=3")
    import subprocess
    with open(logf, "w") as lf:
        p = subprocess.run([hr] + cmd_args + ["-out", histf], stdout=subprocess.PIPE, stderr=lf, text=True, env=env, timeout=3000)
    if p.returncode != 0:
        text = open(logf).read()
        i = text.find("fatal error:")
        if i >= 0 and "go-stackage." in text[i:]:
            # the Go runtime killed the driver from inside the package's own lock handling: not recoverable in-process
            raise FatalCrash(text[i:i + 1500], cmd_args)
        raise Infra("race-built harness failed (rc=%d): %s" % (p.returncode, text[-1500:]))
    g = json.loads(p.stdout.strip().splitlines()[-1])
    reports = parse_race_log(open(logf).read())
    racef = work.path("races_%s.ndjson" % name)
    with open(racef, "w") as fh:
        if not reports:
            fh.write(json.dumps(dict(k1="none", f1="", k2="none", f2="")) + "\n")
        for r in reports:
            fh.write(json.dumps({k: r[k] for k in ("k1", "f1", "k2", "f2")}) + "\n")
    result = work.path("raceres_%s.json" % name)
    cfg = "\n".join(["SPECIFICATION Spec", "CONSTANTS", '  RACEFILE = "%s"' % racef, '  RESULT = "%s"' % result, '  MODE = "%s"' % mode,
                     "INVARIANT Done", "CHECK_DEADLOCK FALSE", ""])
    res = lib.tlc(work, "race_" + name, "RaceClass", cfg, workers=1, timeout=600)
    r = json.load(open(result))
    acc["states"] += res["distinct"]
    acc["tv"].append(dict(name="race-" + name, mode=mode, rounds=g.get("rounds"), race_reports=len(reports), known_precheck_read=r["known"],
                          unlisted_reports=len(r["bad"]), distinct_report_kinds=len({(x["k1"], x["f1"], x["k2"], x["f2"]) for x in reports})))
    viol = []
    if r["known"] > 0:
        sig = "%s/race/precheck-read" % prop
        f = findings.match(prop, sig)
        if f is None:
            viol.append(dict(kind="race", detail=["pre-check read races observed but %s is not listed" % sig]))
        else:
            kinds = sorted({"%s %s | %s %s" % (x["k1"], x["f1"], x["k2"], x["f2"]) for x in reports})
            v.known_finding("%s: %d race reports of the listed class (unlocked pre-check read vs write inside a critical section), e.g. %s" % (sig, r["known"], kinds[0]))
    for b in r["bad"][:3]:
        rep = reports[b["line"] - 1]
        viol.append(dict(property=prop, kind="race", detail=["race report outside the listed class: %s %s | %s %s" % (rep["k1"], rep["f1"], rep["k2"], rep["f2"]), rep["head"]],
                         **{"class": "%s/race/%s|%s" % (prop, rep["f1"], rep["f2"])}))
    return histf, g, viol


def lin_stage(work, acc, histf, name):
    result = work.path("lin_%s.json" % name)
    cfg = "\n".join(["SPECIFICATION LSpec", "CONSTANTS", '  HISTFILE = "%s"' % histf, '  RESULT = "%s"' % result,
                     "INVARIANT Mark", "POSTCONDITION Post", "CHECK_DEADLOCK FALSE", ""])
    res = lib.tlc(work, "lin_" + name, "LinTrace", cfg, workers=1, timeout=3000)
    if not os.path.exists(result):
        raise Infra("LinTrace wrote no result")
    r = json.load(open(result))
    acc["states"] += res["distinct"]
    acc["generated"] += res["generated"]
    return r, res


@check("C10")
def c10(work, v, tier):
    q = tier == "quick"
    findings = Findings()
    harness = lib.build_harness(work)
    acc = dict(states=0, transitions=0, generated=0, traces=0, evaluations=0, trace_events=0, instances=[], tv=[], samples=[])
    insts = [("g2x1", dict(G=2, OpsPer=1, Lens="{0, 1, 2, 3}", Caps="{0, 2}", FAMILY="core"), 0),
             ("g2x2", dict(G=2, OpsPer=2, Lens="{1, 2}" if not q else "{1}", Caps="{0, 3}", FAMILY="poppush"), 20000 if q else 0),
             ("g3x1", dict(G=3, OpsPer=1, Lens="{0, 1, 2}" if not q else "{1}", Caps="{0, 2}", FAMILY="mini3"), 20000 if q else 0)]
    # with a push policy installed: the closure runs inside Push's critical section (one lock acquisition per call)
    insts.append(("g2x1pol", dict(G=2, OpsPer=1, Lens="{0, 1}", Caps="{0, 2}", FAMILY="policy"), 0))
    insts.append(("g2x2pol", dict(G=2, OpsPer=2, Lens="{1}", Caps="{3}", FAMILY="policy"), 10000 if q else 0))
    # the no-nesting option switched while a Push waits for the lock: what the Push stores is decided INSIDE its critical section
    insts.append(("g2x1nn", dict(G=2, OpsPer=1, Lens="{0, 1}", Caps="{0}", FAMILY="nnest"), 0))
    insts.append(("g2x2nn", dict(G=2, OpsPer=2, Lens="{1}", Caps="{0}", FAMILY="nnest"), 5000 if q else 0))
    if not q:
        insts.append(("g2x2core", dict(G=2, OpsPer=2, Lens="{1}", Caps="{0}", FAMILY="core"), 200000))
    for name, c, limit in insts:
        schedf = work.path("sched_%s.ndjson" % name)
        cfg = "\n".join(["SPECIFICATION Spec", "CONSTANTS"] + ["  %s = %s" % (k, ('"%s"' % val) if k == "FAMILY" else val) for k, val in c.items()] +
                        ['  OUT = "%s"' % schedf, "INVARIANTS Linearizable CapRespected OnlyUserValues Emit", "CHECK_DEADLOCK FALSE", ""])
        res = lib.tlc(work, "conc_" + name, "Concurrent", cfg, workers=1, timeout=3000)
        histf = work.path("hist_%s.ndjson" % name)
        gcmd = [harness, "gated", "-sched", schedf, "-out", histf, "-limit", str(limit), "-seed", str(lib.seed())]
        rc, out, wall = lib.run(gcmd, timeout=3000)
        if rc != 0 and "fatal error:" in out and "go-stackage." in out[out.find("fatal error:"):]:
            # the Go runtime killed the driver from inside the package (e.g. sync: unlock of unlocked mutex): gated runs are
            # deterministic, so narrow it down to ONE schedule by bisection and report that schedule
            nsched = sum(1 for _ in open(schedf))
            lo, hi = 0, (min(limit, nsched) if limit else nsched)
            def dies(a, n):
                r, o, _ = lib.run(gcmd + ["-first", str(a), "-count", str(n)], timeout=3000)
                return r != 0 and "fatal error:" in o
            if not dies(lo, hi - lo):
                raise Infra("gated execution died with a fatal runtime error that did not recur: " + out[out.find("fatal error:"):][:600])
            while hi - lo > 1:
                mid = (lo + hi) // 2
                if dies(lo, mid - lo):
                    hi = mid
                else:
                    lo = mid
            # with -count 1 the driver prints the schedule it is about to execute
            r1, o1, _ = lib.run(gcmd + ["-first", str(lo), "-count", "1"], timeout=600)
            rec_line = None
            for ln in o1.splitlines():
                if ln.startswith("SELECTED "):
                    rec_line = json.loads(ln[len("SELECTED "):])
            if rec_line is None:
                raise Infra("fatal runtime error in the gated run could not be pinned to one schedule")
            ftxt = out[out.find("fatal error:"):]
            rec = dict(property="C10", kind="fatalsched", schedule=rec_line,
                       detail=["forcing schedule %s of %s kills the process: %s" % (rec_line.get("sched"), json.dumps(rec_line.get("prog"))[:300], ftxt.splitlines()[0]),
                               " | ".join(l.strip() for l in ftxt.splitlines()[1:14] if "go-stackage." in l)[:500]],
                       **{"class": "C10/gated/fatal"})
            triage(v, findings, "C10", harness, rec, None)
            continue
        if rc != 0:
            raise Infra("gated execution failed: " + out[-2000:])
        g = json.loads(out.strip().splitlines()[-1])
        if g.get("hook_calls", 0) == 0:
            raise Infra("the lock hook never fired during %d gated executions: the binding to the code is gone (hook removed or not compiled in)" % g["executed"])
        r, lres = lin_stage(work, acc, histf, name)
        if r["histories"] != g["executed"]:
            raise Infra("LinTrace saw %d histories, %d were executed" % (r["histories"], g["executed"]))
        acc["states"] += res["distinct"]; acc["generated"] += res["generated"]
        acc["transitions"] += g["schedules_enumerated"]; acc["traces"] += g["executed"]; acc["evaluations"] += g["executed"]
        acc["instances"].append(dict(name=name, constants=c, tlc_distinct_states=res["distinct"], schedules_enumerated=g["schedules_enumerated"],
                                     schedules_executed_on_real_goroutines=g["executed"], rejected_by_LinTrace=len(r["rejected"]),
                                     model_drift=g["drift"], exact_prediction_mismatch=g["prediction_mismatch"],
                                     tlc_wall_s=round(res["wall"], 1), exec_wall_s=round(wall, 1), lintrace_wall_s=round(lres["wall"], 1)))
        if r["rejected"]:
            hs = lib.read_ndjson(histf)
            ss = {json.dumps([l["init"], l["prog"], l["sched"]], sort_keys=True): l for l in lib.read_ndjson(schedf)} if limit == 0 else None
            for idx in r["rejected"][:3]:
                h = hs[idx - 1]
                # find the schedule line of this history
                prog = [[e["c"] for e in gg] for gg in h["hist"]]
                sl = None
                for l in lib.read_ndjson(schedf):
                    if l["sched"] == h["sched"] and l["init"] == h["init"] and len(l["prog"]) == len(prog):
                        if all(len(a) >= len(b) and a[:len(b)] == b for a, b in zip(l["prog"], prog)):
                            sl = l
                            break
                rec = dict(property="C10", kind="sched", schedule=sl, history=h,
                           detail=["schedule %s of %s: no sequential execution explains the observed history" % (h["sched"], json.dumps(prog)),
                                   "flags: %s" % h["flags"], "returns: %s final: %s" % (json.dumps([[e["ret"] for e in gg] for gg in h["hist"]]), h["final"])],
                           **{"class": "C10/gated/%s" % ("flag" if h["flags"] else "nonlinearizable")})
                triage(v, findings, "C10", harness, rec, None)
        else:
            h = lib.read_ndjson(histf, limit=40)[-1]
            acc["samples"].append(dict(kind="gated-schedule", schedule=h["sched"], history=[[dict(call=e["c"], ret=e["ret"]) for e in gg] for gg in h["hist"]], final=h["final"]))
    # what an unlocked reader (the wrappers' own emptiness pre-check) sees DURING a critical section: Watch.tla
    def watch(salt, name):
        recf = work.path("watch_%s.ndjson" % name)
        rc, out, wall = lib.run([harness, "watch", "-out", recf, "-rounds", str(3000 if q else 40000), "-seed", str(lib.seed() * 13 + salt)], timeout=3000)
        if rc != 0:
            raise Infra("watch driver failed: " + out[-1500:])
        g = json.loads(out.strip().splitlines()[-1])
        if g["samples"] < g["rounds"]:
            raise Infra("the watch samplers attributed only %d samples to %d rounds" % (g["samples"], g["rounds"]))
        result = work.path("watchres_%s.json" % name)
        cfg = "\n".join(["SPECIFICATION Spec", "CONSTANTS", '  CASEFILE = "%s"' % recf, '  RESULT = "%s"' % result, "INVARIANT Done", "CHECK_DEADLOCK FALSE", ""])
        res = lib.tlc(work, "watch_" + name, "Watch", cfg, workers=1, timeout=3000)
        r = json.load(open(result))
        if r["consumed"] != g["rounds"]:
            raise Infra("Watch.tla consumed %s of %s records" % (r["consumed"], g["rounds"]))
        acc["states"] += res["distinct"]; acc["traces"] += g["rounds"]; acc["evaluations"] += g["samples"]; acc["trace_events"] += g["rounds"]
        acc["tv"].append(dict(name="watch-" + name, sequential_runs=g["rounds"], length_samples_attributed=g["samples"], rejected_by_Watch=len(r["bad"])))
        if r["bad"]:
            recs = lib.read_ndjson(recf)
            for b in r["bad"][:3]:
                rec = recs[b["line"] - 1]
                k = len(rec["calls"])
                x = dict(property="C10", kind="watch", record=rec, lens=[b["lens"][str(i)] if isinstance(b["lens"], dict) else b["lens"][i - 1] for i in range(1, k + 2)],
                         rets=[b["rets"][str(i)] if isinstance(b["rets"], dict) else b["rets"][i - 1] for i in range(1, k + 1)], final=b["final"],
                         detail=["record %d rejected by Watch.tla at call(s) %s: lengths sampled by an unlocked reader %s, specified lengths %s, calls %s" %
                                 (b["line"], b["calls"], rec["seen"], b["lens"], json.dumps(rec["calls"])[:300])],
                         **{"class": "C10/watch/transient-or-sequential"})
                triage(v, findings, "C10", harness, x, None)
        else:
            rec = lib.read_ndjson(recf, limit=5)[-1]
            acc["samples"].append(dict(kind="watch-record", calls=rec["calls"], lengths_seen_during_each_call=rec["seen"], final=rec["final"]))
    watch(0, "a")
    # free-running goroutines under the race detector
    def stress(seed_salt, name):
        histf, g, viol = race_stage(work, v, findings, "C10", acc, "mutators",
                                    ["stress", "-rounds", str(400 if q else 4000), "-g", "5", "-ops", "3", "-seed", str(lib.seed() * 31 + seed_salt)], name)
        r, lres = lin_stage(work, acc, histf, name)
        acc["traces"] += g["rounds"]; acc["evaluations"] += g["rounds"]
        acc["tv"].append(dict(name="stress-" + name, rounds=g["rounds"], flagged=g["flagged"], rejected_by_LinTrace=len(r["rejected"])))
        if r["rejected"]:
            hs = lib.read_ndjson(histf)
            h = hs[r["rejected"][0] - 1]
            viol.append(dict(property="C10", kind="stress", history=h,
                             detail=["free-running history rejected by LinTrace: flags %s" % h["flags"],
                                     json.dumps([[dict(c=e["c"], ret=e["ret"]) for e in gg] for gg in h["hist"]])[:1200], "final %s" % h["final"]],
                             **{"class": "C10/stress/%s" % ("flag" if h["flags"] else "nonlinearizable")}))
        return viol
    try:
        viol = stress(0, "a")
    except FatalCrash as fc1:
        try:
            stress(7, "b")
            raise Infra("the free-running driver died once with a fatal runtime error that did not recur: " + fc1.text[:400])
        except FatalCrash as fc2:
            rec = dict(property="C10", kind="fatal", cmd=fc2.cmd,
                       detail=["the free-running driver died twice with a fatal Go runtime error raised inside the package's lock handling",
                               fc1.text.splitlines()[0], " | ".join(l.strip() for l in fc1.text.splitlines()[1:12] if "go-stackage." in l)[:600]],
                       **{"class": "C10/stress/fatal"})
            triage(v, findings, "C10", harness, rec, None)
            viol = []
    if viol:
        # free-running results are not deterministic: confirm with an independent second run
        viol2 = stress(7, "b")
        if not viol2:
            raise Infra("a free-running violation did not recur in an independent second run (not confirmed): %s" % viol[0]["detail"][0])
        for x in viol[:3]:
            v.violation(x, "; ".join(x["detail"])[:600])
    v.cov = dict(states=acc["states"], transitions=acc["transitions"], traces_validated_against_impl=acc["traces"], samples=acc["samples"][:4],
                 evaluations=acc["evaluations"], distinct_nontrivial=acc["transitions"],
                 rule="distinct = distinct (initial state, program, schedule) triples enumerated by TLC from Concurrent.tla; each executed schedule is forced on real goroutines "
                      "through the lock hook and its history judged by LinTrace.tla; plus free-running rounds in a -race build",
                 exhaustive=q is False, tlc_generated_states=acc["generated"], bounded_instances=acc["instances"], trace_validation=acc["tv"],
                 checker_cmd="tlc Concurrent.tla ; harness gated ; tlc LinTrace.tla ; harness watch ; tlc Watch.tla ; harness(-race) stress ; tlc RaceClass.tla",
                 design_properties_checked_by_tlc=["Linearizable (every terminal state of every schedule is explained by a sequential execution in program order)",
                                                   "CapRespected", "OnlyUserValues (the configuration is never an element)"],
                 explanation="all interleavings at lock-acquisition granularity of 2-3 goroutines x 1-2 mutators on a shared mutex-enabled stack of length 0..3, LIFO and FIFO, with and "
                             "without capacity, enumerated by TLC and executed deterministically on real goroutines (a goroutine parks before each call and before mutex.Lock()); "
                             "per segment the driver also checks that content changes only between lock.held and lock.release and that the lock bookkeeping is written under the lock; "
                             "sequential runs with sampler goroutines reading Len() throughout, judged by Watch.tla (no critical section shows the stack shorter or longer than both its ends: "
                             "the wrappers decide emptiness before they lock); "
                             "free-running rounds on 16 cores in a -race build, histories judged by LinTrace.tla, race reports classified by RaceClass.tla")
    v.assumptions = ["interleavings are enumerated at lock-acquisition + call-boundary granularity (the property's own quantifier); instruction-level races are left to the race detector",
                     "the race-detector part is timing dependent: it can add findings, its silence proves nothing",
                     "TLC, CommunityModules, the verif lock hook and the Go race runtime are trusted"]
    return v.finish()


@check("C11")
def c11(work, v, tier):
    q = tier == "quick"
    findings = Findings()
    harness = lib.build_harness(work)
    acc = dict(states=0, transitions=0, generated=0, traces=0, evaluations=0, trace_events=0, transitions_replayed=0, instances=[], tv=[], samples=[])
    # (1) every declared query, alone: receiver unchanged (deep snapshot), repeatable, returned containers do not alias the receiver
    frame_stage(work, v, findings, "C11", harness, "query", acc)
    # (2) 8-16 goroutines at once on one structure, in a -race build; every answer validated by the specification
    hr = lib.build_harness(work, race=True)
    import subprocess
    def parallel(salt, name):
        casef = work.path("cq_%s.ndjson" % name)
        logf = work.path("cqrace_%s.log" % name)
        env = dict(os.environ, GORACE="halt_on_error=0 exitcode=0 history_size=3")
        with open(logf, "w") as lf:
            p = subprocess.run([hr, "cqueries", "-rounds", str(60 if q else 2000), "-g", str(12 if q else 16), "-seed", str(lib.seed() * 17 + salt), "-out", casef],
                               stdout=subprocess.PIPE, stderr=lf, text=True, env=env, timeout=3000)
        if p.returncode != 0:
            raise Infra("cqueries failed: " + open(logf).read()[-1500:])
        g = json.loads(p.stdout.strip().splitlines()[-1])
        result = work.path("cqres_%s.json" % name)
        cfg = "\n".join(["SPECIFICATION Spec", "CONSTANTS", '  CASEFILE = "%s"' % casef, '  RESULT = "%s"' % result, "INVARIANT Done", "CHECK_DEADLOCK FALSE", ""])
        res = lib.tlc(work, "cq_" + name, "Check_Queries", cfg, workers=1, timeout=3000)
        r = json.load(open(result))
        if r["consumed"] != g["lines"]:
            raise Infra("Check_Queries consumed %s of %s lines" % (r["consumed"], g["lines"]))
        reports = parse_race_log(open(logf).read())
        acc["states"] += res["distinct"]; acc["traces"] += g["lines"]; acc["evaluations"] += g["lines"] * 34; acc["trace_events"] += g["lines"]
        acc["tv"].append(dict(name="parallel-queries-" + name, structures=g["rounds"], goroutines=g["goroutines"], answer_lists_validated=g["lines"],
                              rejected_lines=len(r["bad"]), race_reports=len(reports)))
        viol = []
        lines = None
        for b in r["bad"][:2]:
            lines = lines or lib.read_ndjson(casef)
            rec = lines[b["line"] - 1]
            viol.append(dict(property="C11", kind="parallel-answers", who=rec["who"], tree=rec["in"],
                             detail=["answers of %s differ from the specification for queries %s" % (rec["who"], [rec["arg"][i - 1] for i in b["queries"]][:4]),
                                     "observed %s" % json.dumps([rec["out"][i - 1] for i in b["queries"]][:2])[:600]],
                             **{"class": "C11/parallel/%s" % ("isolated" if rec["who"] == "isolated" else "concurrent")}))
        for rep in reports[:2]:
            viol.append(dict(property="C11", kind="race", detail=["data race among concurrent queries: %s %s | %s %s" % (rep["k1"], rep["f1"], rep["k2"], rep["f2"]), rep["head"]],
                             **{"class": "C11/race/%s|%s" % (rep["f1"], rep["f2"])}))
        if not viol:
            smp = lib.read_ndjson(casef, limit=2)[-1]
            acc["samples"].append(dict(kind="parallel-answers", who=smp["who"], queries=smp["arg"][:4], answers=smp["out"][:4]))
        return viol
    viol = parallel(0, "a")
    if viol:
        iso = [x for x in viol if x["class"].endswith("isolated")]
        if iso:      # deterministic: the isolated answer itself is wrong
            for x in iso[:3]:
                v.violation(x, "; ".join(x["detail"])[:600])
        else:
            viol2 = parallel(5, "b")
            if not viol2:
                raise Infra("a parallel-query violation did not recur in an independent second run (not confirmed): %s" % viol[0]["detail"][0])
            for x in viol[:3]:
                v.violation(x, "; ".join(x["detail"])[:600])
    v.cov = dict(states=acc["states"], transitions=acc["transitions"], traces_validated_against_impl=acc["traces"], samples=acc["samples"][:4],
                 evaluations=acc["evaluations"], distinct_nontrivial=acc["transitions"],
                 rule="distinct = recorded (receiver, method, argument tuple) events of the reflection sweep, each validated by Frame.tla's QueryRule; plus one answer list per "
                      "(structure, goroutine) validated query by query by Check_Queries.tla",
                 trace_validation=acc["tv"], methods_enumerated_by_reflection=sorted(acc.get("methods", [])),
                 checker_cmd="harness sweep -mode query ; tlc Frame.tla ; harness(-race) cqueries ; tlc Check_Queries.tla ; tlc RaceClass.tla (MODE=queries)",
                 design_properties_checked_by_tlc=["QueryRule: a declared query leaves the deep snapshot, read-only flag, error and liveness unchanged and gives the same answer when repeated",
                                                   "Answer(tree, query) from Render / Lookup / TraverseSpec / UnmarshalSpec for every recorded answer"],
                 explanation="queries: (1) every exported non-mutating method (reflection minus the declared mutator list of Frame.tla) on 17 kinds of receivers (nested trees, "
                             "mutex-enabled, closures installed, failing validity policy), writable and read-only: deep VerifDump snapshot before = after, repeated call gives the same "
                             "answer, the Unmarshal result is scribbled over without the receiver noticing; (2) 12-16 goroutines issue 26 queries (String, Index, Front, Back, Traverse, "
                             "Len, Cap, Avail, Kind, Valid, IsEqual, Unmarshal, Is...) three times each on one shared random structure with mutex-enabled nodes, half of them read-only, "
                             "in a -race build: every answer list equals the specification's answers and no race report at all is accepted")
    v.assumptions = ["the race-detector part is timing dependent: it can add findings, its silence proves nothing",
                     "Less is covered by the purity sweep only (its ordering semantics are not modelled)"]
    return v.finish()


def replay(prop, path, work):
    harness = lib.build_harness(work)
    rc, out, _ = lib.run([harness, "replay", path], timeout=300)
    print(out)
    if rc == 1:
        print("VIOLATION property=%s replay=%s" % (prop, path))
    return rc
