"""Per-property check definitions."""
import json, os, shutil
import lib
from lib import Infra, Findings, tla_set, tla_str_set

CHECKS = {}

def check(pid):
    def deco(f):
        CHECKS[pid] = f
        return f
    return deco

# ---------------------------------------------------------------------------
# The Stack state machine (spec/ListOps.tla, Stackage.tla, StackageTrace.tla)
# ---------------------------------------------------------------------------

ALL_FIELDS = ["init", "len", "empty", "cap", "avail", "full", "kind", "fifo", "idx", "front",
              "back", "bits", "ronly", "paren", "padded", "cannest", "nesting", "err", "canmtx",
              "id", "cat", "delim", "sym", "enc", "isenc", "elems", "integ"]

SM_DEFAULT = dict(Vals=["nil", "a", "b"], MaxLen=3, Caps=[0], Kinds=["AND"], InitOpts=[[]],
                  Fams=["list"], OptFlags=[], PushLens=[1, 2], DstCaps=[0], IdxMode="existing",
                  invariants=["TypeOK", "CapInv", "CapObs", "StepProps"],
                  properties=["FifoLatch", "DeadStaysDead"], depth=2, walks=300, wlen=40)


def sm_cfg(c, out):
    optsets = tla_set(tla_str_set(o) for o in c["InitOpts"])
    lines = ["SPECIFICATION Spec", "CONSTANTS",
             "  Vals = " + tla_str_set(c["Vals"]),
             "  MaxLen = %d" % c["MaxLen"],
             "  Caps = " + tla_set(map(str, c["Caps"])),
             "  Kinds = " + tla_str_set(c["Kinds"]),
             "  InitOpts = " + optsets,
             "  Fams = " + tla_str_set(c["Fams"]),
             "  OptFlags = " + tla_str_set(c["OptFlags"]),
             "  PushLens = " + tla_set(map(str, c["PushLens"])),
             "  DstCaps = " + tla_set(map(str, c["DstCaps"])),
             '  IdxMode = "%s"' % c["IdxMode"],
             '  OUT = "%s"' % out,
             "INVARIANTS " + " ".join(c["invariants"] + (["Emit"] if out else [])),
             "PROPERTIES " + " ".join(c["properties"]),
             "CHECK_DEADLOCK FALSE", ""]
    return "\n".join(lines)


def triage(v, findings, prop, harness, rec, fields=None):
    """One mismatch record -> known finding or (re-executed, confirmed) violation."""
    sig = rec.get("class", "?")
    f = findings.match(prop, sig)
    if f is not None:
        v.known_finding("%s (%s)" % (sig, f["_line"][:160]))
        return
    path = v.violation(rec, "; ".join(rec.get("detail", []))[:400])
    cmd = [harness, "replay"]
    if fields:
        cmd += ["-fields", ",".join(fields)]
    rc, out, _ = lib.run(cmd + [path], timeout=120)
    if rc != 1 or "DISAGREES" not in out:
        raise Infra("counterexample %s did not reproduce on re-execution (rc=%d): %s" % (path, rc, out[-500:]))


def sm_table_stage(work, v, findings, prop, harness, name, c, fields, acc):
    """spec -> code: model-check one bounded instance, emit its transition
    table, replay it (single transitions, all paths to a depth, random walks)."""
    d_out = work.path("table_%s.ndjson" % name)
    res = lib.tlc(work, "mc_" + name, "Stackage", sm_cfg(c, d_out), workers=1, timeout=c.get("timeout", 900))
    summ = work.path("sum_%s.json" % name)
    mm = work.path("mm_%s.ndjson" % name)
    cmd = [harness, "table", "-table", d_out, "-prop", prop, "-depth", str(c["depth"]),
           "-walks", str(c["walks"]), "-wlen", str(c["wlen"]), "-seed", str(lib.seed()),
           "-mismatches", mm, "-summary", summ, "-fields", ",".join(fields)]
    rc, out, wall = lib.run(cmd, timeout=c.get("replay_timeout", 1800))
    if rc != 0:
        raise Infra("table replay failed: " + out[-2000:])
    s = json.load(open(summ))
    if s["states"] != res["distinct"]:
        raise Infra("table has %d states but TLC found %d distinct states" % (s["states"], res["distinct"]))
    acc["states"] += res["distinct"]
    acc["transitions"] += s["transitions"]
    acc["generated"] += res["generated"]
    acc["traces"] += s["paths_replayed"] + s["walks"]
    acc["evaluations"] += s["steps_executed"]
    acc["transitions_replayed"] += s["transitions_replayed"]
    acc["instances"].append(dict(name=name, constants={k: c[k] for k in
                            ("Vals", "MaxLen", "Caps", "Kinds", "InitOpts", "Fams", "IdxMode", "PushLens", "DstCaps", "OptFlags")},
                            tlc_distinct_states=res["distinct"], tlc_generated=res["generated"],
                            table_transitions=s["transitions"], paths_depth=c["depth"],
                            paths_replayed=s["paths_replayed"], walks=s["walks"],
                            steps_executed=s["steps_executed"], mismatches=s["mismatches"],
                            tlc_wall_s=round(res["wall"], 1), replay_wall_s=round(wall, 1)))
    for smp in s.get("samples", [])[:2]:
        acc["samples"].append(dict(kind="table-replay", init=smp["init"],
                                   steps=[dict(call=x["c"], on=x["on"], expected_ret=x["exp_ret"]) for x in smp["steps"]][:6]))
    seen = {}
    for rec in lib.read_ndjson(mm):
        k = rec.get("class")
        seen[k] = seen.get(k, 0) + 1
        if seen[k] <= 2:
            triage(v, findings, prop, harness, rec, fields)
    return s


def sm_trace_stage(work, v, findings, prop, harness, name, t, fields, acc):
    """code -> spec: record random histories from the real package, validate
    them with the TLC trace specification."""
    tr = work.path("trace_%s.ndjson" % name)
    cmd = [harness, "tracegen", "-out", tr, "-seed", str(lib.seed() * 7919 + t.get("salt", 0)),
           "-traces", str(t["traces"]), "-len", str(t["len"]), "-fams", ",".join(t["fams"]),
           "-mode", t.get("mode", "existing"), "-nvals", str(t.get("nvals", 20)),
           "-maxlen", str(t.get("maxlen", 14))]
    if t.get("nest"):
        cmd.append("-nest")
    if t.get("caps"):
        cmd += ["-caps", t["caps"]]
    rc, out, _ = lib.run(cmd, timeout=600)
    if rc != 0:
        raise Infra("tracegen failed: " + out[-2000:])
    g = json.loads(out.strip().splitlines()[-1])
    result = work.path("result_%s.json" % name)
    cfg = "\n".join(["SPECIFICATION TSpec", "CONSTANTS",
                     '  TRACEFILE = "%s"' % tr, '  RESULT = "%s"' % result,
                     "  FIELDS = " + tla_str_set(fields),
                     "INVARIANT Done", "CHECK_DEADLOCK FALSE", ""])
    res = lib.tlc(work, "tv_" + name, "StackageTrace", cfg, workers=1, timeout=t.get("timeout", 1200))
    if not os.path.exists(result):
        raise Infra("trace validation wrote no result (trace not consumed)")
    r = json.load(open(result))
    nlines = g["events"] + g["traces"]
    if r["consumed"] != nlines or r["lines"] != nlines:
        raise Infra("trace validation consumed %s of %s lines" % (r["consumed"], nlines))
    acc["traces"] += g["traces"]
    acc["trace_events"] += g["events"]
    acc["evaluations"] += g["events"]
    acc["states"] += res["distinct"]
    acc["tv"].append(dict(name=name, histories=g["traces"], events=g["events"], rejected_lines=len(r["bad"]),
                          families=t["fams"], index_mode=t.get("mode", "existing"), tlc_wall_s=round(res["wall"], 1)))
    if r["bad"]:
        lines = lib.read_ndjson(tr)
        seen = {}
        for b in r["bad"]:
            ln = b["line"]  # 1-based
            start = ln - 1
            while lines[start - 1]["ev"] != "reset":
                start -= 1
            reset = lines[start - 1]
            steps = []
            for e in lines[start:ln]:
                steps.append(dict(c=e["c"], on=e["on"], exp_ret=e["ret"]))
            last = lines[ln - 1]
            steps[-1]["exp_ret"] = b["expret"]
            eo = dict(last["obs"])
            if isinstance(b.get("exp"), dict):
                eo.update(b["exp"])
            steps[-1]["exp_obs"] = eo
            kind = "ret" if not b["retok"] else "obs"
            if last["ret"][:1] == ["PANIC"]:
                kind = "panic"
            rec = dict(property=prop, kind=kind, init=reset["st"], steps=steps,
                       detail=["trace line %d rejected by StackageTrace" % ln,
                               "observed ret %s, spec ret %s" % (last["ret"], b["expret"]),
                               "observables differing: %s" % (sorted(b["exp"].keys()) if isinstance(b.get("exp"), dict) else [])],
                       **{"class": "%s/%s/%s" % (prop, b["op"], kind)})
            if reset["dst"].get("live"):
                rec["dinit"] = reset["dst"]
                do = dict(last["dobs"])
                if isinstance(b.get("dexp"), dict):
                    do.update(b["dexp"])
                steps[-1]["exp_dobs"] = do
            k = rec["class"]
            seen[k] = seen.get(k, 0) + 1
            if seen[k] <= 2:
                triage(v, findings, prop, harness, rec, fields)
    else:
        # keep one accepted history prefix as a sample
        lines = lib.read_ndjson(tr, limit=6)
        acc["samples"].append(dict(kind="validated-trace-prefix",
                                   lines=[dict(call=e.get("c"), ret=e.get("ret")) for e in lines[1:5]]))


def sm_check(work, v, prop, tier, tables, traces, fields, design_props, note):
    findings = Findings()
    harness = lib.build_harness(work)
    acc = dict(states=0, transitions=0, generated=0, traces=0, evaluations=0, trace_events=0,
               transitions_replayed=0, instances=[], tv=[], samples=[])
    for name, c in tables:
        cc = dict(SM_DEFAULT)
        cc.update(c)
        sm_table_stage(work, v, findings, prop, harness, name, cc, fields, acc)
    for name, t in traces:
        sm_trace_stage(work, v, findings, prop, harness, name, t, fields, acc)
    v.cov = dict(
        states=acc["states"], transitions=acc["transitions"],
        traces_validated_against_impl=acc["traces"],
        samples=acc["samples"][:6],
        evaluations=acc["evaluations"],
        distinct_nontrivial=acc["transitions"] + acc["trace_events"],
        rule="distinct = distinct abstract transitions (state, call) of the TLC-enumerated table, each replayed "
             "on the real package, plus recorded random-history events validated by the trace spec; "
             "non-trivial = the call is enabled in a live state of the bounded instance",
        exhaustive=True,
        checker_cmd="tlc -workers 1 -config MC.cfg Stackage.tla ; harness table ... ; harness tracegen ... ; tlc -config TR.cfg StackageTrace.tla",
        tlc_generated_states=acc["generated"], transitions_replayed_from_built_state=acc["transitions_replayed"],
        bounded_instances=acc["instances"], trace_validation=acc["tv"],
        observables_compared=fields, design_properties_checked_by_tlc=design_props,
        explanation=note)
    v.assumptions = [
        "exhaustive only within the stated constants; beyond them coverage is seeded-random and validated, not exhaustive",
        "harness concretiser/projector tables (value name <-> Go value) and the VerifDump hook are trusted",
        "TLC 1.8.0 + CommunityModules Json/IOUtils are trusted",
    ]
    return v.finish()


IDX4 = [[], ["neg"], ["fwd"], ["neg", "fwd"]]
C01_FIELDS = ["init", "len", "idx", "front", "back", "empty", "elems", "fifo", "integ"]


@check("C01")
def c01(work, v, tier):
    if tier == "quick":
        tables = [("core", dict(Caps=[0, 1, 2, 3], InitOpts=IDX4, MaxLen=3, depth=2, walks=400, wlen=40)),
                  ("kinds", dict(Caps=[0, 2], Kinds=["AND", "OR", "NOT", "LIST", "BASIC"], MaxLen=2, Vals=["nil", "a"],
                                 InitOpts=[[], ["neg", "fwd"]], depth=2, walks=100, wlen=30))]
        traces = [("rand", dict(traces=150, len=60, fams=["list", "idxopts"]))]
    else:
        tables = [("core", dict(Caps=[0, 1, 2, 3, 4], InitOpts=IDX4, MaxLen=4, depth=2, walks=3000, wlen=80)),
                  ("deep", dict(Caps=[0, 2], InitOpts=[[], ["neg", "fwd"]], MaxLen=3, Vals=["nil", "a"], PushLens=[1], depth=3, walks=500, wlen=60)),
                  ("kinds", dict(Caps=[0, 2], Kinds=["AND", "OR", "NOT", "LIST", "BASIC"], MaxLen=3,
                                 InitOpts=IDX4, depth=2, walks=1000, wlen=60))]
        traces = [("rand", dict(traces=1500, len=100, fams=["list", "idxopts"])),
                  ("long", dict(traces=200, len=400, fams=["list", "idxopts"], maxlen=40, nvals=100, salt=1))]
    return sm_check(work, v, "C01", tier, tables, traces, C01_FIELDS,
                    ["TypeOK", "CapInv", "StepProps(LenDelta, ListLaws: Reverse/Swap involutions, Pop=Front)", "FifoLatch"],
                    "ordered-list semantics: Stackage.tla enumerated exhaustively within the constants; every "
                    "transition, every path to the stated depth and seeded random walks replayed on the real Stack with "
                    "Len/Index(-L-1..L+1)/Front/Back/IsEmpty/raw slots compared after every step; random longer "
                    "histories recorded from the real Stack accepted line by line by StackageTrace.tla")


def replay(prop, path, work):
    harness = lib.build_harness(work)
    rc, out, _ = lib.run([harness, "replay", path], timeout=300)
    print(out)
    if rc == 1:
        print("VIOLATION property=%s replay=%s" % (prop, path))
    return rc
