#!/usr/bin/env python3
"""check.py <property> [--tier quick|thorough] [--replay <file>]

One driver for all properties.  Every check
  1. rebuilds the Go harness against /repo's current working tree (tag verif),
  2. model-checks the TLA+ specification with TLC (design-level properties),
  3. binds the specification to the code in both directions:
       spec -> code : TLC-generated transition tables / cases replayed into
                      the real package, every observable compared per step;
       code -> spec : histories / cases recorded from the real package by
                      seeded random drivers, validated by a TLC trace spec;
  4. writes evidence/<id>.json and prints VIOLATION / KNOWN-FINDING lines.
"""
import argparse, json, os, sys, traceback

sys.path.insert(0, os.path.dirname(os.path.abspath(__file__)))
import lib
from lib import Infra, Work, Verdict, Findings


def main():
    ap = argparse.ArgumentParser()
    ap.add_argument("prop")
    ap.add_argument("--tier", default=os.environ.get("VERIF_TIER", "quick"), choices=["quick", "thorough"])
    ap.add_argument("--replay", default=None)
    a = ap.parse_args()
    import props
    if a.prop not in props.CHECKS:
        print("unknown property", a.prop)
        return 2
    work = Work(a.prop)
    v = None
    try:
        if a.replay:
            return props.replay(a.prop, a.replay, work)
        v = Verdict(a.prop, a.tier)
        return props.CHECKS[a.prop](work, v, a.tier)
    except Infra as e:
        if v is not None and v.violations:
            # violations already confirmed on the real code stand; the later stage could not run
            print("NOTE: a later stage ended with an infrastructure error: %s" % str(e)[:400])
            if not v.cov:
                v.cov = dict(evaluations=len(v.violations), distinct_nontrivial=max(2, len(v.violations)),
                             explanation="run ended early: violations confirmed before an infrastructure error in a later stage",
                             samples=[x[1] for x in v.violations[:2]], rule="n/a")
            return v.finish("other")
        print("INFRASTRUCTURE ERROR (no verdict): %s" % e)
        return 2
    except Exception:
        traceback.print_exc()
        print("INFRASTRUCTURE ERROR (no verdict): unexpected exception")
        return 2


if __name__ == "__main__":
    sys.exit(main())
