#!/usr/bin/env python3
"""Binding demonstrations (DESIGN.md section 8): the specification really is
bound to the code.
  1. corrupt ONE recorded observable in an accepted history -> StackageTrace
     rejects exactly that line (and still consumes the rest of the file);
  2. corrupt ONE expected token of a TLC-generated render case -> the case
     replay reports exactly that case;
  3. (--with-repo) remove the lock hook calls from /repo -> the C10 check
     ends with exit 2 (no verdict), not with a pass.
Results are written to seeded/BINDING.json."""
import json, os, subprocess, sys
sys.path.insert(0, os.path.dirname(os.path.abspath(__file__)))
import lib

V = lib.VERIF
out = {}
work = lib.Work("selftest")
h = lib.build_harness(work)

# 1 ---------------------------------------------------------------------
tr = work.path("t.ndjson")
lib.run([h, "tracegen", "-out", tr, "-seed", "11", "-traces", "20", "-len", "30", "-fams", "list,idxopts"], check=True)
lines = open(tr).read().splitlines()
k = 137
rec = json.loads(lines[k - 1])
assert rec["ev"] == "call"
rec["obs"]["len"] += 1
lines[k - 1] = json.dumps(rec)
open(tr, "w").write("\n".join(lines) + "\n")
res = work.path("r.json")
cfg = "\n".join(["SPECIFICATION TSpec", "CONSTANTS", '  TRACEFILE = "%s"' % tr, '  RESULT = "%s"' % res,
                 '  FIELDS = {"len", "elems", "idx"}', "INVARIANT Done", "CHECK_DEADLOCK FALSE", ""])
lib.tlc(work, "tv", "StackageTrace", cfg, workers=1)
r = json.load(open(res))
out["corrupt_trace_field"] = dict(corrupted_line=k, rejected_lines=[b["line"] for b in r["bad"]], consumed=r["consumed"], lines=r["lines"],
                                  ok=[b["line"] for b in r["bad"]] == [k] and r["consumed"] == r["lines"])

# 2 ---------------------------------------------------------------------
cases = work.path("c.ndjson")
cfg = "\n".join(["SPECIFICATION Spec", "CONSTANTS", '  FAMILY = "shape1"', '  OUT = "%s"' % cases, "INVARIANTS Laws Emit", "CHECK_DEADLOCK FALSE", ""])
lib.tlc(work, "gen", "Gen_Render", cfg, workers=1)
cl = open(cases).read().splitlines()
idx = next(i for i, l in enumerate(cl) if len(json.loads(l)["exp"]) > 2)
c = json.loads(cl[idx]); c["exp"][1] = "Q"; cl[idx] = json.dumps(c)
open(cases, "w").write("\n".join(cl) + "\n")
mm, sm = work.path("mm.ndjson"), work.path("s.json")
lib.run([h, "cases", "-cases", cases, "-fn", "render", "-prop", "C02", "-mismatches", mm, "-summary", sm], check=True)
s = json.load(open(sm))
out["corrupt_case_token"] = dict(cases=s["cases"], mismatches=s["mismatches"], ok=s["mismatches"] == 1)

# 3 ---------------------------------------------------------------------
if "--with-repo" in sys.argv:
    import shutil
    scratch = "/tmp/selfrepo"
    shutil.rmtree(scratch, ignore_errors=True)
    subprocess.run(["git", "clone", "-q", "/repo", scratch], check=True)
    try:
        src = open(scratch + "/stack.go").read()
        open(scratch + "/stack.go", "w").write("\n".join(l for l in src.splitlines() if "verifPoint(" not in l) + "\n")
        env = dict(os.environ, VERIF_REPO=scratch)
        p = subprocess.run(["python3", os.path.join(V, "run", "check.py"), "C10", "--tier", "quick"], cwd=V, env=env,
                           stdout=subprocess.PIPE, stderr=subprocess.STDOUT, text=True, timeout=3000)
        out["hook_removed"] = dict(exit=p.returncode, last_line=p.stdout.strip().splitlines()[-1][:300], ok=p.returncode == 2)
    finally:
        shutil.rmtree(scratch, ignore_errors=True)
json.dump(out, open(os.path.join(V, "seeded", "BINDING.json"), "w"), indent=1)
print(json.dumps(out, indent=1))
sys.exit(0 if all(x["ok"] for x in out.values()) else 1)
