#!/usr/bin/env python3
"""setup: verify toolchain only; every check rebuilds the harness against /repo itself."""
import shutil, subprocess, sys, os
ok = True
for tool in ("tlc", "go", "java", "python3"):
    if shutil.which(tool) is None:
        print("missing tool:", tool); ok = False
sys.exit(0 if ok else 1)
