#!/usr/bin/env python3
"""Shared runner machinery: work dirs, harness build, TLC invocation, known
findings, evidence files, verdict printing.

Exit codes: 0 = property held on everything explored (KNOWN-FINDING lines may
be printed), 1 = VIOLATION observed on the real code, 2 = infrastructure
problem (never a verdict)."""
import atexit, json, os, re, shutil, subprocess, sys, time

VERIF = os.path.dirname(os.path.dirname(os.path.abspath(__file__)))
REPO = os.environ.get("VERIF_REPO", "/repo")
SPEC = os.path.join(VERIF, "spec")
HARNESS = os.path.join(VERIF, "harness")
NCPU = os.cpu_count() or 4

GOENV = dict(os.environ, GOFLAGS="-mod=mod", GOPROXY="off", GOSUMDB="off",
             GOTOOLCHAIN="local", CGO_ENABLED=os.environ.get("CGO_ENABLED", "1"))


class Infra(Exception):
    pass


def log(msg):
    if os.environ.get("VERIF_VERBOSE"):
        sys.stderr.write("[%s] %s\n" % (time.strftime("%H:%M:%S"), msg))
        sys.stderr.flush()


def seed():
    try:
        return int(os.environ.get("VERIF_SEED", "1"))
    except ValueError:
        return 1


class Work:
    """Scratch directory under /verif/.work, removed on exit."""

    def __init__(self, prop):
        self.dir = os.path.join(VERIF, ".work", "%s.%d" % (prop, os.getpid()))
        shutil.rmtree(self.dir, ignore_errors=True)
        os.makedirs(self.dir)
        atexit.register(self.cleanup)
        self.n = 0

    def cleanup(self):
        if os.environ.get("VERIF_KEEP") != "1":
            shutil.rmtree(self.dir, ignore_errors=True)

    def path(self, *p):
        return os.path.join(self.dir, *p)

    def sub(self, name):
        self.n += 1
        d = self.path("%02d_%s" % (self.n, name))
        os.makedirs(d)
        return d


def run(cmd, cwd=None, timeout=None, env=None, check=False):
    t0 = time.time()
    try:
        p = subprocess.run(cmd, cwd=cwd, env=env, timeout=timeout,
                           stdout=subprocess.PIPE, stderr=subprocess.STDOUT, text=True)
    except subprocess.TimeoutExpired as e:
        out = e.stdout or ""
        if isinstance(out, bytes):
            out = out.decode("utf-8", "replace")
        raise Infra("timeout after %ss: %s\n%s" % (timeout, " ".join(map(str, cmd))[:300], out[-2000:]))
    if check and p.returncode != 0:
        raise Infra("command failed (%d): %s\n%s" % (p.returncode, " ".join(map(str, cmd))[:300], p.stdout[-4000:]))
    return p.returncode, p.stdout, time.time() - t0


def build_harness(work, race=False):
    """Rebuild the Go harness against /repo's current working tree (hooks on)."""
    out = work.path("harness_race" if race else "harness")
    cmd = ["go", "build", "-tags", "verif"]
    if REPO != "/repo":
        # self-test against a scratch copy of the repository (VERIF_REPO): same sources, alternate module file
        mf = work.path("alt.mod")
        with open(os.path.join(HARNESS, "go.mod")) as fh:
            mod = fh.read().replace("=> /repo", "=> " + REPO)
        with open(mf, "w") as fh:
            fh.write(mod)
        cmd.append("-modfile=" + mf)
    if race:
        cmd.append("-race")
    cmd += ["-o", out, "."]
    rc, o, _ = run(cmd, cwd=HARNESS, env=GOENV, timeout=600)
    if rc != 0:
        raise Infra("harness build failed against %s:\n%s" % (REPO, o[-4000:]))
    return out


TLC_RE = re.compile(r"(\d+) states generated, (\d+) distinct states found")


def tlc(work, name, module, cfg, workers=None, timeout=600, extra=(), files=None, simulate=None):
    """Run TLC on spec/<module>.tla with the given cfg text in a scratch copy.
    Returns dict(generated, distinct, out, wall).  A violated invariant or
    property of the SPEC ITSELF is an infrastructure error (the design is
    inconsistent), never a verdict about the code."""
    d = work.sub(name)
    for f in os.listdir(SPEC):
        if f.endswith(".tla"):
            shutil.copy(os.path.join(SPEC, f), d)
    for fn, content in (files or {}).items():
        with open(os.path.join(d, fn), "w") as fh:
            fh.write(content)
    with open(os.path.join(d, "MC.cfg"), "w") as fh:
        fh.write(cfg)
    cmd = ["tlc", "-workers", str(workers or NCPU), "-metadir", os.path.join(d, "md"),
           "-config", "MC.cfg"]
    cmd += list(extra)
    cmd.append(module + ".tla")
    env = dict(os.environ)
    # deep TLA+ recursion over token sequences needs a large Java thread stack
    # ... and TLC's own temporary directories belong into the scratch directory of this run, not into /tmp
    jtmp = os.path.join(d, "jtmp")
    os.makedirs(jtmp, exist_ok=True)
    env["JAVA_TOOL_OPTIONS"] = (env.get("JAVA_TOOL_OPTIONS", "") + " -Xss512m -Djava.io.tmpdir=" + jtmp).strip()
    rc, out, wall = run(cmd, cwd=d, timeout=timeout, env=env)
    with open(os.path.join(d, "tlc.out"), "w") as fh:
        fh.write(out)
    m = None
    for m in TLC_RE.finditer(out):
        pass
    if rc != 0 or "Error:" in out or (m is None and simulate is None):
        raise Infra("TLC run '%s' failed (rc=%d):\n%s" % (name, rc, tail_err(out)))
    res = dict(generated=int(m.group(1)) if m else 0, distinct=int(m.group(2)) if m else 0,
               out=out, wall=wall, dir=d)
    return res


def apalache(work, name, module, init, inv, length, timeout=300):
    """Apalache bounded check of spec/<module>.tla (used for inductive invariants: init=IndInit, length=1).
    Like lib.tlc, a failure is an infrastructure error about the SPEC, never a verdict about the code."""
    d = work.sub(name)
    shutil.copy(os.path.join(SPEC, module + ".tla"), d)
    env = dict(os.environ)
    jtmp = os.path.join(d, "jtmp")
    os.makedirs(jtmp, exist_ok=True)
    env["JAVA_TOOL_OPTIONS"] = (env.get("JAVA_TOOL_OPTIONS", "") + " -Djava.io.tmpdir=" + jtmp).strip()
    env["TMPDIR"] = jtmp      # the apalache-mc wrapper creates its SANY directory with mktemp -t: keep it out of /tmp
    cmd = ["apalache-mc", "check", "--init=" + init, "--inv=" + inv, "--length=%d" % length,
           "--out-dir=" + os.path.join(d, "out"), "--run-dir=" + os.path.join(d, "rundir"), module + ".tla"]
    rc, out, wall = run(cmd, cwd=d, timeout=timeout, env=env)
    with open(os.path.join(d, "apalache.out"), "w") as fh:
        fh.write(out)
    if rc != 0 or "The outcome is: NoError" not in out:
        raise Infra("Apalache run '%s' failed (rc=%d):\n%s" % (name, rc, out[-1500:]))
    return dict(cmd=" ".join(cmd[:5]) + " %s.tla" % module, outcome="NoError", wall=round(wall, 1))


def tail_err(out):
    lines = out.splitlines()
    keep = [l for l in lines if not l.startswith(("Linting", "Semantic", "Parsing"))]
    return "\n".join(keep[-60:])


# ---------------------------------------------------------------- findings

class Findings:
    """KNOWN_FINDINGS.txt: 'open:' lines suppress exactly the listed
    signature; 'fixed:' lines suppress nothing.  Never written at run time."""

    def __init__(self):
        self.open = []
        path = os.path.join(VERIF, "KNOWN_FINDINGS.txt")
        if os.path.exists(path):
            for line in open(path):
                line = line.strip()
                if line.startswith("open:"):
                    kv = dict(re.findall(r"(\w+)=(\S+)", line))
                    kv["_line"] = line
                    self.open.append(kv)

    def match(self, prop, sig):
        for f in self.open:
            if f.get("property") == prop and f.get("sig") == sig:
                return f
        return None

    def for_prop(self, prop):
        return [f for f in self.open if f.get("property") == prop]


# ---------------------------------------------------------------- verdicts

class Verdict:
    def __init__(self, prop, tier):
        self.prop, self.tier = prop, tier
        self.violations = []
        self.known = []
        self.known_counts = {}
        self.t0 = time.time()
        self.cov = {}
        self.assumptions = []
        rd = os.path.join(VERIF, "replay", prop)
        os.makedirs(rd, exist_ok=True)
        for f in os.listdir(rd):          # stale counterexamples of earlier runs of this tier
            if f.startswith("violation_%s_" % tier):
                os.remove(os.path.join(rd, f))

    def violation(self, record, what=""):
        n = len(self.violations) + 1
        path = os.path.join(VERIF, "replay", self.prop, "violation_%s_%d.json" % (self.tier, n))
        with open(path, "w") as fh:
            json.dump(record, fh, indent=1)
        self.violations.append((path, what))
        return path

    def known_finding(self, what):
        # one line per listed finding (keyed by its signature = text before the first ':' / ' (')
        key = what.split(":")[0].split(" (")[0]
        for i, k in enumerate(self.known):
            if k.split(":")[0].split(" (")[0] == key:
                self.known_counts[key] = self.known_counts.get(key, 1) + 1
                return
        self.known.append(what)

    def finish(self, level="model_checking"):
        ev = {
            "property_id": self.prop, "tier": self.tier, "seed": seed(), "level": level,
            "coverage": self.cov, "assumptions": self.assumptions,
            "wall_s": round(time.time() - self.t0, 2), "violations": len(self.violations),
        }
        os.makedirs(os.path.join(VERIF, "evidence"), exist_ok=True)
        with open(os.path.join(VERIF, "evidence", self.prop + ".json"), "w") as fh:
            json.dump(ev, fh, indent=1)
        for k in self.known:
            key = k.split(":")[0].split(" (")[0]
            extra = " [seen in %d stages of this run]" % self.known_counts[key] if key in self.known_counts else ""
            print("KNOWN-FINDING: property=%s %s%s" % (self.prop, k, extra))
        for path, what in self.violations[:20]:
            print("VIOLATION property=%s replay=%s" % (self.prop, path))
            if what:
                print("  " + what)
        if self.violations:
            print("%s: %d violation(s)" % (self.prop, len(self.violations)))
            return 1
        print("%s: held on everything explored (%s tier, %.1fs)" % (self.prop, self.tier, time.time() - self.t0))
        return 0


def read_ndjson(path, limit=None):
    out = []
    if not os.path.exists(path):
        return out
    with open(path) as fh:
        for line in fh:
            line = line.strip()
            if line:
                out.append(json.loads(line))
                if limit and len(out) >= limit:
                    break
    return out


def tla_set(xs):
    return "{" + ", ".join(xs) + "}"


def tla_str_set(xs):
    return "{" + ", ".join('"%s"' % x for x in xs) + "}"
