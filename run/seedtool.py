#!/usr/bin/env python3
"""seedtool.py import <ID>...   confirm a sub-agent's seeded changes in its scratch worktree and store them under seeded/
   seedtool.py run [name...]    apply each seeded change to /repo, run the quick check of its property, undo; record the outcome
"""
import json, os, shutil, subprocess, sys, time
V = os.path.dirname(os.path.dirname(os.path.abspath(__file__)))
ENV = dict(os.environ, GOFLAGS="-mod=mod", GOPROXY="off", GOSUMDB="off", GOTOOLCHAIN="local")

def sh(cmd, cwd=None, timeout=1800):
    p = subprocess.run(cmd, shell=True, cwd=cwd, env=ENV, stdout=subprocess.PIPE, stderr=subprocess.STDOUT, text=True, timeout=timeout)
    return p.returncode, p.stdout

def clean(wt):
    sh("git checkout -q -- . && rm -f seeded_demo_test.go", wt)

def do_import(pid):
    # "DIR:NAME:PROP" imports /tmp/mut/DIR/_out/m* as seeded/NAME_m* for property PROP
    name, prop = pid, pid
    if ":" in pid:
        pid, name, prop = pid.split(":")
    wt = "/tmp/mut/" + pid
    outd = os.path.join(wt, "_out")
    if not os.path.isdir(outd):
        print(pid, "no _out"); return
    for m in sorted(os.listdir(outd)):
        src = os.path.join(outd, m)
        patch, demo = os.path.join(src, "patch.diff"), os.path.join(src, "demo_test.go")
        if not (os.path.exists(patch) and os.path.exists(demo)):
            print(pid, m, "incomplete"); continue
        clean(wt)
        ran = []
        rc, o = sh("git apply --check %s" % patch, wt); ran.append(("git apply --check", rc))
        if rc != 0:
            print(pid, m, "patch does not apply:", o[-300:]); continue
        # clean tree: demo passes
        shutil.copy(demo, os.path.join(wt, "seeded_demo_test.go"))
        rc_clean, o1 = sh("go test -run TestSeeded -vet=off -count=1 -timeout 10m .", wt); ran.append(("clean+demo: go test -run TestSeeded", rc_clean))
        os.remove(os.path.join(wt, "seeded_demo_test.go"))
        sh("git apply %s" % patch, wt)
        rc_suite, o2 = sh("go build ./... && go test -vet=off -count=1 -timeout 10m ./...", wt); ran.append(("patched: existing suite", rc_suite))
        shutil.copy(demo, os.path.join(wt, "seeded_demo_test.go"))
        rc_demo, o3 = sh("go test -run TestSeeded -vet=off -count=1 -timeout 10m .", wt); ran.append(("patched+demo: go test -run TestSeeded", rc_demo))
        clean(wt)
        ok = rc_clean == 0 and rc_suite == 0 and rc_demo != 0
        print(pid, m, "confirmed" if ok else "REJECTED", ran)
        if not ok:
            continue
        dst = os.path.join(V, "seeded", "%s_%s" % (name, m))
        shutil.rmtree(dst, ignore_errors=True)
        os.makedirs(dst)
        shutil.copy(patch, dst); shutil.copy(demo, os.path.join(dst, "demo_test.go"))
        notes = os.path.join(src, "notes.md")
        needs = ""
        if os.path.exists(notes):
            shutil.copy(notes, dst)
            needs = open(notes).read()[:1500]
        json.dump(dict(property=prop, source="independent sub-agent given only the property text and a scratch worktree",
                       base_commit=sh("git rev-parse HEAD", wt)[1].strip(),
                       needs_to_manifest=needs,
                       confirmed=[dict(cmd=c, exit=r) for c, r in ran],
                       confirmed_rule="patch applies; unchanged tree + demo passes; patched tree passes the existing suite; patched tree + demo fails"),
                  open(os.path.join(dst, "meta.json"), "w"), indent=1)

def do_import_wt(wt, name, prop, needs=""):
    """importwt <worktree> <name> <prop>: the sub-agent left the change applied in <worktree> together with
    zz_demo_test.go (TestDemo) and patch.diff; confirm all of it here and store it as seeded/<name>."""
    patch, demo = os.path.join(wt, "patch.diff"), os.path.join(wt, "zz_demo_test.go")
    if not (os.path.exists(patch) and os.path.exists(demo)):
        print(name, "incomplete"); return
    tmp = "/tmp/_imp_%s" % name
    shutil.rmtree(tmp, ignore_errors=True); os.makedirs(tmp)
    shutil.copy(patch, tmp); shutil.copy(demo, os.path.join(tmp, "demo_test.go"))
    sh("git checkout -q -- . && rm -f zz_demo_test.go patch.diff seeded_demo_test.go", wt)
    ran = []
    rc, o = sh("git apply --check %s/patch.diff" % tmp, wt); ran.append(("git apply --check", rc))
    if rc != 0:
        print(name, "patch does not apply", o[-300:]); return
    shutil.copy(os.path.join(tmp, "demo_test.go"), os.path.join(wt, "seeded_demo_test.go"))
    rc_clean, _ = sh("go test -run TestDemo -vet=off -count=1 -timeout 10m .", wt); ran.append(("clean+demo: go test -run TestDemo", rc_clean))
    os.remove(os.path.join(wt, "seeded_demo_test.go"))
    sh("git apply %s/patch.diff" % tmp, wt)
    rc_suite, _ = sh("go build ./... && go test -vet=off -count=1 -timeout 10m ./...", wt); ran.append(("patched: existing suite", rc_suite))
    shutil.copy(os.path.join(tmp, "demo_test.go"), os.path.join(wt, "seeded_demo_test.go"))
    rc_demo, _ = sh("go test -run TestDemo -vet=off -count=1 -timeout 10m .", wt); ran.append(("patched+demo: go test -run TestDemo", rc_demo))
    sh("git checkout -q -- . && rm -f seeded_demo_test.go", wt)
    ok = rc_clean == 0 and rc_suite == 0 and rc_demo != 0
    print(name, "confirmed" if ok else "REJECTED", ran)
    if ok:
        dst = os.path.join(V, "seeded", name)
        shutil.rmtree(dst, ignore_errors=True); os.makedirs(dst)
        shutil.copy(os.path.join(tmp, "patch.diff"), dst); shutil.copy(os.path.join(tmp, "demo_test.go"), dst)
        json.dump(dict(property=prop, source="independent sub-agent given only the property text and a scratch worktree",
                       base_commit=sh("git rev-parse HEAD", wt)[1].strip(), needs_to_manifest=needs,
                       confirmed=[dict(cmd=c, exit=r) for c, r in ran],
                       confirmed_rule="patch applies; unchanged tree + demo passes; patched tree passes the existing suite; patched tree + demo fails"),
                  open(os.path.join(dst, "meta.json"), "w"), indent=1)
    shutil.rmtree(tmp, ignore_errors=True)


def do_run_scratch(names, scratch):
    """Like do_run, but on a scratch clone of /repo (VERIF_REPO), so that /repo is never touched and
    several runs can proceed in parallel."""
    sd = os.path.join(V, "seeded")
    names = names or sorted(d for d in os.listdir(sd) if os.path.isdir(os.path.join(sd, d)))
    if not os.path.isdir(scratch):
        rc, o = sh("git clone -q /repo %s" % scratch)
        assert rc == 0, o
    sh("git checkout -q -- . && git clean -fdq && git fetch -q origin && git reset -q --hard origin/main", scratch)
    resf = os.path.join(sd, "RESULTS.json")
    env = dict(ENV, VERIF_REPO=scratch)
    for n in names:
        d = os.path.join(sd, n)
        meta = json.load(open(os.path.join(d, "meta.json")))
        props = [meta["property"]] + meta.get("also_check", [])
        rc, o = sh("git apply %s" % os.path.join(d, "patch.diff"), scratch)
        if rc != 0:
            print(n, "patch does not apply:", o[-200:]); continue
        det = {}
        try:
            for p in props:
                t0 = time.time()
                pr = subprocess.run("python3 run/check.py %s --tier quick" % p, shell=True, cwd=V, env=env, stdout=subprocess.PIPE, stderr=subprocess.STDOUT, text=True, timeout=3000)
                o = pr.stdout
                ls = o.splitlines()
                viol = [l for l in ls if l.startswith("VIOLATION")]
                det[p] = dict(exit=pr.returncode, violations=len(viol), wall_s=round(time.time() - t0, 1),
                              first=(ls[ls.index(viol[0]) + 1][:300] if viol and ls.index(viol[0]) + 1 < len(ls) else (ls[-1][:300] if ls else "")))
                print(n, p, "exit", pr.returncode, "violations", len(viol), flush=True)
        finally:
            sh("git checkout -q -- . && git clean -fdq", scratch)
        results = json.load(open(resf)) if os.path.exists(resf) else {}
        results[n] = dict(status="detected" if any(x["exit"] == 1 for x in det.values()) else "MISSED", checks=det,
                          repo_head=sh("git rev-parse --short HEAD", scratch)[1].strip(), on="scratch clone of /repo (VERIF_REPO)")
        json.dump(results, open(resf, "w"), indent=1)


def do_run(names):
    sd = os.path.join(V, "seeded")
    names = names or sorted(d for d in os.listdir(sd) if os.path.isdir(os.path.join(sd, d)))
    rc, o = sh("git status --porcelain", "/repo")
    if o.strip():
        print("/repo is not clean; refusing"); sys.exit(2)
    resf = os.path.join(sd, "RESULTS.json")
    results = json.load(open(resf)) if os.path.exists(resf) else {}
    for n in names:
        d = os.path.join(sd, n)
        meta = json.load(open(os.path.join(d, "meta.json")))
        props = [meta["property"]] + meta.get("also_check", [])
        rc, o = sh("git apply %s" % os.path.join(d, "patch.diff"), "/repo")
        if rc != 0:
            print(n, "patch does not apply to /repo HEAD:", o[-200:]); results[n] = dict(status="patch-does-not-apply"); continue
        try:
            det = {}
            for p in props:
                t0 = time.time()
                rc, o = sh("python3 run/check.py %s --tier quick" % p, V, timeout=3000)
                viol = [l for l in o.splitlines() if l.startswith("VIOLATION")]
                det[p] = dict(exit=rc, violations=len(viol), wall_s=round(time.time() - t0, 1),
                              first=(o.splitlines()[o.splitlines().index(viol[0]) + 1][:300] if viol and o.splitlines().index(viol[0]) + 1 < len(o.splitlines()) else ""))
                print(n, p, "exit", rc, "violations", len(viol))
            results[n] = dict(status="detected" if any(x["exit"] == 1 for x in det.values()) else "MISSED", checks=det,
                              repo_head=sh("git rev-parse --short HEAD", "/repo")[1].strip())
        finally:
            sh("git checkout -q -- .", "/repo")
        json.dump(results, open(resf, "w"), indent=1)
    rc, o = sh("git status --porcelain", "/repo")
    assert not o.strip(), "repo left dirty"

if __name__ == "__main__":
    if sys.argv[1] == "import":
        for pid in sys.argv[2:]:
            do_import(pid)
    elif sys.argv[1] == "run":
        do_run(sys.argv[2:])
    elif sys.argv[1] == "importwt":  # importwt <worktree> <name> <prop> [needs-to-manifest text]
        do_import_wt(sys.argv[2], sys.argv[3], sys.argv[4], sys.argv[5] if len(sys.argv) > 5 else "")
    elif sys.argv[1] == "runs":     # runs <scratch dir> [names...]
        do_run_scratch(sys.argv[3:], sys.argv[2])
