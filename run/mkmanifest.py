#!/usr/bin/env python3
"""Regenerates MANIFEST.json from the check registry (run/props.py) and the
per-property descriptions below.  Properties without a built check are listed
under not_applicable with the reason."""
import json, os, subprocess, sys
sys.path.insert(0, os.path.dirname(os.path.abspath(__file__)))
import props

V = os.path.dirname(os.path.dirname(os.path.abspath(__file__)))
ALL = [json.loads(l)["id"] for l in open(os.path.join(V, "properties.jsonl"))]

SM = ("TLC model checking of spec/Stackage.tla (bounded, exhaustive) + transition-table replay into the Go package "
      "(every transition, all paths to a depth, random walks) + TLC trace validation (StackageTrace.tla) of random histories recorded from the Go package")

DESC = {
 "C01": dict(technique=SM, design_ref="DESIGN.md section 4 C01",
   text="Exhaustive within small constants (values {nil,a,b}, Len<=3-4, capacities 0-4, LIFO/FIFO, the four index-option sets, all five kinds): TLC enumerates every abstract state and every enabled call of the list state machine, checks the list laws on the spec, and every transition / every path to depth 2-3 / seeded walks are executed on the real Stack with Len, Index over -L-1..L+1, Front, Back, IsEmpty, raw slots and all return values compared after each step; beyond the constants, random histories (length up to 400, 100 values) recorded from the real Stack must be accepted line by line by the TLC trace specification.",
   note="Bounded model checking: exhaustive only within the stated constants; trusts the harness concretiser/projector tables, the VerifDump hook, TLC and the CommunityModules Json/IOUtils."),
}

NOTE_SM = "Bounded model checking: exhaustive only within the stated constants; trusts the harness concretiser/projector tables, the VerifDump hook, TLC and the CommunityModules Json/IOUtils."
FR = (" + reflection sweep over every exported method of Stack and Condition with each recorded call validated by the frame rules of spec/Frame.tla")

def sm(pid, text, frame=False):
    DESC[pid] = dict(technique=SM + (FR if frame else ""), design_ref="DESIGN.md section 4 " + pid, text=text, note=NOTE_SM)

sm("C03", "Capacity as a TLC invariant (CapInv, CapObs) over all growth actions - Push batches, Insert, Transfer-into, Marshal-into - interleaved with Pop/Remove/Reset, for capacities 1-4 and lengths up to 4, both handles of a Transfer; every transition / path to depth 2-3 / random walk replayed on real Stacks with Len, Cap, Avail, IsFull and the raw slots compared after each step; random boundary-seeking histories validated as traces. The capacity arithmetic is also an integer core (spec/CapCore.tla) whose invariant CapInv /\\ CapObs Apalache proves inductive for every capacity and length; TLC checks that every transition of Stackage.tla projects to a step of that core (CapRefines).")
sm("C08", "Every method taking an int x every index in -(L+1)..L+1 plus MinInt/MaxInt x lengths 0-4 x the four index-option sets enumerated by TLC (IdxMode=all) and replayed with a post-call re-validation of IsInit, Kind, Len, every Index, the configuration record and the raw slots; every method with an any / ...any / Operator parameter (found by reflection) x 38 awkward Go values, each followed by a usability probe, validated by Frame.tla's AwkwardRule (no panic, receiver still usable); receivers and arguments include whole structures with awkward LEAVES (nil pointers in slices, two struct types differing in the visibility of an embedded field, maps with different key sets, a NaN-keyed map). Traverse case families (every path of length 0-3 on all depth-2 trees, random deeper ones): an index that addresses nothing makes Traverse report failure, a failed descent is never resumed on an outer level.", frame=True)
sm("C09", "ReadOnlyFrame checked by TLC on every enabled transition of the state machine started read-only (all call families); tables and traces replayed on the real Stack; every exported method of Stack and Condition (reflection) called on read-only receivers singly and in random sequences of 2-4, each event validated by Frame.tla's ReadOnlyRule against a deep VerifDump snapshot; afterwards the flag is cleared (snapshot must equal the one at flag-set time) and a setter must take effect again. Every event also records what a SECOND handle to the same instance shows afterwards (Condition.Init may only replace the instance behind the handle it was called on); read-only instances are additionally handed over as arguments and nested inside writable parents.", frame=True)
sm("C13", "NoNestPush and option/content independence checked by TLC; push batches over {nil, leaf, native Stack, alias, pointer-to-alias, Condition, Condition holding a Stack} (each batch handed over as one slice that must come back unmodified) interleaved with set/clear/toggle of no-nesting on every kind replayed on real Stacks (content, CanNest, IsNesting, raw option bits); Len / IsNesting of every node of random trees against Measure (spec/Trees.tla). Every harness process first offers typed nil pointers, zero aliases and function-local LOOK-ALIKES of the alias types (same printed name, no Stack) to the converters, so that anything the package remembers about types has seen the worst before a case runs.")
sm("C14", "PolicyDecides checked by TLC over all batches of length 1-3 against every accept-set (8 subsets) with and without capacity; the installed Go closure records its consult log, which is compared (count and order) together with content and Err() after every step. ClosuresDecide over every install / remove sequence of the validity, presentation, equality, marshal, unmarshal and COMPARISON closures on all five kinds: Valid(), the source of String() / IsEqual / Unmarshal, Marshal's result and Less(0,1) / Less(1,0) / Less(0,0) are compared after every step; without a comparison closure Less must be the built-in byte order of the element texts of the CURRENT content (ListOps!LessL) - the instance that exposed the SetLessFunc() snapshot defect repaired by dbc1c3b. On Conditions (CondMC.tla): validity, presentation, equality, unmarshal and evaluator closures, with the law CClosures (a setter touches only its own slot; installing decides what Valid / String / IsEqual / Unmarshal / Evaluate return, removing restores the built-in behaviour; a Condition without an equality closure never consults its peer's).")
sm("C15", "TransferFrame checked by TLC over a two-handle state machine (source length 0-4 with nil elements, LIFO/FIFO; destination length 0-4, capacity none or 1-5, read-only / zero / no-nesting destinations; destination given as native, alias, pointer or foreign value); both handles observed in full after every replayed step.")
sm("C17", "Lifecycle (zero / live / freed) in the state machine: Inert checked by TLC on every transition from the dead state, Free and Reset semantics; every exported method (reflection) called on zero and freed Stacks and Conditions with plain and awkward arguments, each event validated by Frame.tla's InertRule (no panic, no resurrection except Marshal/Init, zero results except the documented sentinels, Valid / IsEqual REPORT an error) and FreeRule (the handle becomes zero unless read-only; every other handle of the instance taken before the call can still be looked at and used).", frame=True)
sm("C18", "OptIndependence and the FIFO latch checked by TLC; exhaustive sequences of {set, clear, toggle} x 8 options to depth 3 (quick) / 4 (thorough) replayed with raw option bits (verif hook) and getters compared; ID, category, delimiter (LIST only), symbol (non-LIST only), encapsulation pairs (duplicate characters refused) in a second instance; log levels (names, constants, raw integers, all / none) and the auxiliary map (never set / fresh / the caller's populated map / the caller's EMPTY map, each kept by reference) and the logger selection in further instances; random mixed sequences validated as traces.")

sm("C06", "Condition state machine (spec/CondCore.tla, CondMC.tla): TLC checks on every enabled transition that accepted arguments are stored and rejected ones (nil / empty-text / empty-context operators, nil and empty-string expressions, Stack expressions under no-nesting, any expression while Err() is set) leave keyword / operator / expression unchanged, that Valid() is nil exactly under the stated conditions and that String() is empty iff Valid() fails; every transition, all paths to depth 2-3 from Cond(...) and Init(), and random walks are replayed on real Conditions with Keyword / Operator / Expression / Valid / the exact String() text compared; random histories are validated by CondTrace.tla.")
DESC["C06"]["technique"] = DESC["C06"]["technique"].replace("spec/Stackage.tla", "spec/CondMC.tla (CondCore.tla)").replace("StackageTrace.tla", "CondTrace.tla")

CASES = ("TLC enumeration of exhaustive input families from the TLA+ definition of the function (laws checked on each), "
         "replayed into the Go package case by case + seeded random inputs evaluated by the Go package and validated by a TLC Check_*.tla module")
DESC["C02"] = dict(technique=CASES + " (spec/Render.tla, Gen_Render.tla, Check_Render.tla)", design_ref="DESIGN.md section 4 C02",
   text="The rendering grammar is one recursive TLA+ operator over token sequences (multi-byte runes atomic). TLC enumerates ~27k (quick) / ~500k (thorough) trees in exhaustive families - every per-node option combination on a root and on a nested stack, all child sequences up to width 2-3 over 22 alternatives, depth 3, alias forms - checks the grammar's laws on each, and the real String() must equal the expected token sequence; 4k-40k random trees (depth 3-4, arbitrary token mixes, all options, aliases) rendered by the real code must be accepted by Check_Render.tla.",
   note="Exhaustive only within the stated families; whitespace other than SP/TAB, nil / unprintable elements and cyclic structures are outside the stated domain; trusts the tree concretiser and the rune<->token table of the harness, TLC and CommunityModules.")

DESC["C07"] = dict(technique=CASES + " (spec/Traverse.tla, Gen_Traverse.tla, Check_Traverse.tla)", design_ref="DESIGN.md section 4 C07",
   text="TraverseSpec (recursive) and IndexDescent (the statement's stepwise wording) are two TLA+ definitions that TLC proves equal on every generated (tree, path) pair; all trees of depth <= 3 / width <= 2-3 with nil slots, per-node index options, aliases and Conditions x all paths of length 0..3-5 over -1..width+1 (10^5-10^7 pairs) are replayed on the real Traverse, whose returned value is mapped to a structural address by object identity; random deeper trees and paths are validated by Check_Traverse.tla. Besides the structural address the harness compares the Go TYPE of the returned value with the type the node was stored as (an alias stays an alias), and every stack may carry no-nesting switched on after its elements went in (no effect on what is reachable).",
   note="Exhaustive only within the stated shapes; result identity is established through Addr() of nested Stacks / Conditions and unique leaf texts assigned by the harness.")

DESC["C19"] = dict(technique=CASES + " (spec/Defrag.tla: DefragSpec = the property, DefragAsBuilt = transcription used only to recognise the listed known finding)", design_ref="DESIGN.md section 4 C19",
   text="Exhaustive: every nil / non-nil pattern of length 0..8 (quick) / 0..12 (thorough) x 4 scan limits x 4 index-option sets x nesting position (top, in a Stack, in a Condition, in alias forms, and two levels down through a Stack / a Condition / both), inside the property's domain; TLC checks the laws of DefragSpec and emits the expected tree; the real Defrag's resulting tree (raw slots through the verif hook) and Err() are compared. Deviations that equal the DefragAsBuilt prediction on an input of the listed class are the open known finding (KNOWN-FINDING, exit 0); anything else is a VIOLATION. Further families: three sorts of slot (value, nil, TYPED nil pointer - an element like any other) and an error recorded on the root beforehand (Err() is nil afterwards unless the Stack had no nil element and was left untouched). Random longer patterns are classified by Check_Defrag.tla.",
   note="The package's Defrag is defective and cannot be repaired under the constraints (an existing test pins a wrong outcome); the check therefore passes with a KNOWN-FINDING line and still reports any behaviour that differs from both the property and the listed as-built outcome.")

DESC["C20"] = dict(technique=CASES + " (spec/Reveal.tla: the specification is a SET of allowed results, membership is checked)", design_ref="DESIGN.md section 4 C20",
   text="Reach(t), the closure of the single allowed rewrite (a parenthetical child - Stack or Condition - protects its wrapper), is computed by TLC for ~17k (quick) trees incl. a family with forward / negative index options on the receiver and on nested stacks; for every member TLC proves leaf-sequence preservation, non-growing depth, survival of parenthetical and NOT stacks and equality of the fully-unwrapped normal form; the real Reveal, executed under a watchdog on trees with mutex-enabled nodes, must return a member (a hang is a deadlock violation); afterwards no node may report a held mutex or lock stamp, and a second Reveal must return and again yield a member. Random deeper trees are validated by Check_Reveal.tla.",
   note="The property constrains what Reveal may do, not how much it must do: a Reveal that unwraps less is accepted. Exhaustive only within the stated families.")

DESC["C04"] = dict(technique=CASES + " (spec/Codec.tla, Gen_Codec.tla, Check_Codec.tla)", design_ref="DESIGN.md section 4 C04",
   text="UnmarshalSpec and Decode (Marshal) are TLA+ operators; TLC proves Decode(UnmarshalSpec(t)) = Struct(t) for ~3.4k enumerated trees (all of depth<=2/width<=2 over five kinds, nil leaves, Conditions with primitive / Stack / Condition expressions, plus depth-3 and case-fold / alias families) and emits the expected Unmarshal result; the real Unmarshal, the Marshal into a zero Stack in both call forms, a structural walk of the reconstruction, the second Unmarshal and IsEqual in both directions are compared. Random deeper trees are validated by Check_Codec.tla.",
   note="Exhaustive only within the stated shapes; Conditions are valid ones (a Condition without operator unmarshals an untyped nil); capacity is not part of the generated trees.")
DESC["C16"] = dict(technique=CASES + " (spec/Codec.tla with explicit nondeterminism for malformed input)", design_ref="DESIGN.md section 4 C16",
   text="Decode is total over a junk universe; ~20k enumerated junk trees x 2 call forms x {zero, initialised} receivers are fed to the real Marshal under recover: it must return, report an error or leave an initialised receiver on which String / Unmarshal / IsEqual (against itself, an unrelated stack and an independent second decode of the same input, both ways) return normally; for well-formed input (labels in any case, unknown label => BASIC holding all entries, initialised receiver gains one element) the outcome is compared exactly. Random junk is validated by Check_Codec.tla.",
   note="For malformed CONDITION rows and undecodable nested slices the specification is deliberately nondeterministic (error or any initialised stack).")

DESC["C05"] = dict(technique=CASES + " (spec/Equal.tla: Canon / Mutants / Neutral)", design_ref="DESIGN.md section 4 C05",
   text="Eq(a,b) is equality of canonical descriptions; TLC proves on every enumerated tree that every single point mutation breaks Eq and every neutral variation keeps it, then emits (tree, copy), (tree, mutant) and (tree, neutral variant) pairs; both sides are built by two independent calls of the concretiser and IsEqual must answer nil / error accordingly in BOTH directions without panicking. ~7k pairs (quick) over 27 leaf classes in three positions - primitives, pointers at depth 1-2, typed slices and arrays, []*int with nil pointers, []any of mixed leaves (nil, pointers, slices, maps, structs, nested []any), map[string]int, map[string]any, structs with an unexported field - with element typing and backing capacity of a slice as neutral variations and nil<->value, letter case of keywords / user operator texts as mutations; random pairs validated by Check_Equal.tla.",
   note="Exhaustive only within the stated leaf classes and positions; error text is never compared; functions / channels / unsafe pointers are covered by C08's awkward-value sweep (no panic), not by equality semantics.")

DESC["C12"] = dict(technique=CASES + "; alias value classes S/A/P in the Stackage / CondMC state machines; spec/Convert.tla", design_ref="DESIGN.md section 4 C12",
   text="The specification operators are defined on trees whose nodes carry a 'form' tag that no operator reads, so alias equivalence is a theorem of the spec by construction; the conformance side instantiates every tree family (render, IsEqual incl. form change as a neutral variation, codec, Traverse, Defrag, Reveal) with nested nodes in native / alias / delegating-String alias / unrelated-String alias / pointer-to-alias form and compares the real results with the form-erased expectation; Len / IsNesting / IsEmpty of EVERY Stack and Condition node of the alias trees are compared with Measure (spec/Trees.tla; a Condition holding a Stack in any form has that Stack's length); no-nesting, IsNesting, Condition.SetExpression and Transfer destinations use the S/A/P value classes in the state machines; ConvertStack / ConvertCondition are checked over 17 value classes x 2 functions.",
   note="Alias types are declared in the harness (AStack, WStack, XStack, ACond, WCond, XCond); Defrag cases inherit the open Defrag finding (reported as KNOWN-FINDING under C12 as well).")

DESC["C10"] = dict(technique="TLC model checking of spec/Concurrent.tla (all schedules at lock-acquisition granularity, Linearizable / CapRespected / OnlyUserValues) + every enumerated schedule forced on real goroutines through the verif lock hook + linearisation search over the recorded histories by spec/LinTrace.tla + sequential runs with sampler goroutines reading Len() throughout, judged by spec/Watch.tla (what an unlocked reader may see during one critical section) + free-running rounds in a -race build with race reports classified by spec/RaceClass.tla",
   design_ref="DESIGN.md section 4 C10 and section 11.2",
   text="Concurrent.tla models each mutator as an unlocked wrapper guard followed by an atomic critical section; TLC enumerates every schedule of 2 goroutines x 1 call (all 8 mutators, lengths 0-3, LIFO/FIFO, capacity none/2; exhaustive), 2x2 and 3x1 (sampled in quick, exhaustive in thorough), proves each outcome linearisable, and emits (program, schedule, predicted outcome). The harness parks real goroutines before each call and before mutex.Lock(), so each schedule runs deterministically; LinTrace.tla searches for a sequential explanation of every recorded history; the driver additionally checks per segment that content changes only between lock.held and lock.release and that the lock bookkeeping is written under the lock. Because the wrappers decide emptiness BEFORE they lock, atomicity also needs that no critical section shows the stack shorter or longer than both its ends: thousands of sequential mutator runs are executed while three goroutines sample Len(), and Watch.tla accepts a run iff returns and final content follow ListOps!Step and every sampled length lies between the specified lengths before and after the call (this stage catches the FIFO pop() transient repaired by 89d56d0). A second family has a push policy installed (approving a and b, rejecting c): the closure is consulted, and a rejection recorded, INSIDE Push's critical section - one lock acquisition per call. Free-running 2-5-goroutine rounds with a spin-aligned start in a -race build are judged by LinTrace.tla as well; race reports are classified by RaceClass.tla.",
   note="The 'no data race' clause rests on the Go race detector over spec-derived workloads (timing dependent: it can add findings, its silence proves nothing). One open known finding: unlocked pre-check reads in the wrappers and in lock() race with writes inside critical sections (KNOWN-FINDING); any other report, any non-linearisable history, panic, deadlock, capacity overflow or configuration-as-element is a VIOLATION; so is a fatal Go runtime error raised inside the package's lock handling (sync: unlock of unlocked mutex) that kills the free-running driver in two independent runs.")

DESC["C11"] = dict(technique="reflection sweep over every non-mutating method validated by spec/Frame.tla (QueryRule) + parallel query answers recorded from 12-16 goroutines in a -race build and validated answer by answer by spec/Check_Queries.tla (Render, Lookup, TraverseSpec, UnmarshalSpec, LessSpec of spec/Order.tla) + race reports classified by spec/RaceClass.tla (MODE=queries: none allowed)",
   design_ref="DESIGN.md section 4 C11",
   text="Purity: each declared query (Frame.tla lists the mutators; everything else the reflection enumeration finds is a query candidate) is called on 17 receiver kinds, writable and read-only, with a deep VerifDump snapshot before and after, a repeat call, and a scribble over the returned Unmarshal container. Concurrency: on random shared structures with mutex-enabled nodes (half of them read-only) (a third of them with a rejecting equality closure, whose verdict every IsEqual must return) 12-16 goroutines issue 34 queries (8 of them Less(i,j) on random index pairs) in random order three times; the isolated answers and every goroutine's answers must equal the answers the TLA+ specification computes for that tree; the run is a -race build and no race report is accepted.",
   note="The absence-of-race clause rests on the Go race detector (timing dependent). Less() answers are judged by Order.tla (byte order of the element texts; alias forms without a String method have no text).")

def main():
    commits = subprocess.run(["git", "-C", "/repo", "log", "--format=%h %s", "--grep=^verif:"],
                             stdout=subprocess.PIPE, text=True).stdout.strip().splitlines()
    checks, na = [], []
    for pid in ALL:
        if pid in props.CHECKS and pid in DESC:
            d = DESC[pid]
            checks.append({
                "property_id": pid,
                "quick_cmd": "python3 run/check.py %s --tier quick" % pid,
                "thorough_cmd": "python3 run/check.py %s --tier thorough" % pid,
                "evidence_file": "/verif/evidence/%s.json" % pid,
                "replay_cmd_template": "python3 run/check.py %s --replay {path}" % pid,
                "engine": "tlc+go-harness",
                "level_claimed": {"category": "model_checking", "text": d["text"], "design_ref": d["design_ref"]},
                "level_note": d["note"],
                "technique": d["technique"],
            })
        else:
            na.append({"property_id": pid, "reason": NA.get(pid, "check not built yet (build in progress; DESIGN.md section 10 gives the plan for this property)")})
    m = {
        "version": 1,
        "setup_cmd": "python3 run/setup.py",
        "hooks": {"guard": "verif",
                  "enable": "go build -tags verif (harness module replaces github.com/JesseCoretta/go-stackage with /repo)",
                  "baseline_off_cmd": "cd /repo && go test -json -vet=off -count=1 -timeout 25m ./...",
                  "source_commits": [c.split()[0] for c in commits],
                  "add_only": True},
        "engines": [{"name": "tlc+go-harness", "path": "run/check.py",
                     "serves_properties": [c["property_id"] for c in checks],
                     "kind_free_text": "explicit TLA+ specification (spec/*.tla) model-checked by TLC and bound to the Go package in both directions: TLC-generated transition tables / cases replayed into the code, and executions recorded from the code validated by TLC trace specifications"}],
        "checks": checks,
        "not_applicable": na,
        "notes": "All verdicts come from behaviour observed on the real package compared with the TLA+ specification; exit 2 = infrastructure problem, never a verdict. KNOWN_FINDINGS.txt lists fixed and open findings.",
    }
    json.dump(m, open(os.path.join(V, "MANIFEST.json"), "w"), indent=1)
    print("checks:", [c["property_id"] for c in checks], "not_applicable:", len(na))

NA = {}

if __name__ == "__main__":
    main()
