#!/usr/bin/env python3
"""Regenerates MANIFEST.json from the check registry (run/props.py) and the
per-property descriptions below.  Properties without a built check are listed
under not_applicable with the reason."""
import json, os, subprocess, sys
sys.path.insert(0, os.path.dirname(os.path.abspath(__file__)))
import props

V = os.path.dirname(os.path.dirname(os.path.abspath(__file__)))
ALL = [json.loads(l)["id"] for l in open(os.path.join(V, "properties.jsonl"))]

SM = ("TLC model checking of spec/Stackage.tla (bounded, exhaustive) + transition-table replay into the Go package "
      "(every transition, all paths to a depth, random walks) + TLC trace validation (StackageTrace.tla) of random histories recorded from the Go package")

DESC = {
 "C01": dict(technique=SM, design_ref="DESIGN.md section 4 C01",
   text="Exhaustive within small constants (values {nil,a,b}, Len<=3-4, capacities 0-4, LIFO/FIFO, the four index-option sets, all five kinds): TLC enumerates every abstract state and every enabled call of the list state machine, checks the list laws on the spec, and every transition / every path to depth 2-3 / seeded walks are executed on the real Stack with Len, Index over -L-1..L+1, Front, Back, IsEmpty, raw slots and all return values compared after each step; beyond the constants, random histories (length up to 400, 100 values) recorded from the real Stack must be accepted line by line by the TLC trace specification.",
   note="Bounded model checking: exhaustive only within the stated constants; trusts the harness concretiser/projector tables, the VerifDump hook, TLC and the CommunityModules Json/IOUtils."),
}

def main():
    commits = subprocess.run(["git", "-C", "/repo", "log", "--format=%h %s", "--grep=^verif:"],
                             stdout=subprocess.PIPE, text=True).stdout.strip().splitlines()
    checks, na = [], []
    for pid in ALL:
        if pid in props.CHECKS and pid in DESC:
            d = DESC[pid]
            checks.append({
                "property_id": pid,
                "quick_cmd": "python3 run/check.py %s --tier quick" % pid,
                "thorough_cmd": "python3 run/check.py %s --tier thorough" % pid,
                "evidence_file": "/verif/evidence/%s.json" % pid,
                "replay_cmd_template": "python3 run/check.py %s --replay {path}" % pid,
                "engine": "tlc+go-harness",
                "level_claimed": {"category": "model_checking", "text": d["text"], "design_ref": d["design_ref"]},
                "level_note": d["note"],
                "technique": d["technique"],
            })
        else:
            na.append({"property_id": pid, "reason": NA.get(pid, "check not built yet (build in progress; DESIGN.md section 10 gives the plan for this property)")})
    m = {
        "version": 1,
        "setup_cmd": "python3 run/setup.py",
        "hooks": {"guard": "verif",
                  "enable": "go build -tags verif (harness module replaces github.com/JesseCoretta/go-stackage with /repo)",
                  "baseline_off_cmd": "cd /repo && go test -json -vet=off -count=1 -timeout 25m ./...",
                  "source_commits": [c.split()[0] for c in commits],
                  "add_only": True},
        "engines": [{"name": "tlc+go-harness", "path": "run/check.py",
                     "serves_properties": [c["property_id"] for c in checks],
                     "kind_free_text": "explicit TLA+ specification (spec/*.tla) model-checked by TLC and bound to the Go package in both directions: TLC-generated transition tables / cases replayed into the code, and executions recorded from the code validated by TLC trace specifications"}],
        "checks": checks,
        "not_applicable": na,
        "notes": "All verdicts come from behaviour observed on the real package compared with the TLA+ specification; exit 2 = infrastructure problem, never a verdict. KNOWN_FINDINGS.txt lists fixed and open findings.",
    }
    json.dump(m, open(os.path.join(V, "MANIFEST.json"), "w"), indent=1)
    print("checks:", [c["property_id"] for c in checks], "not_applicable:", len(na))

NA = {}

if __name__ == "__main__":
    main()
