#!/bin/sh
# run every registered quick check once (VERIF_SEED from the environment); prints one line per check
cd "$(dirname "$0")/.."
for p in $(python3 -c "import json; print(' '.join(c['property_id'] for c in json.load(open('MANIFEST.json'))['checks']))"); do
  s=$(date +%s)
  out=$(python3 run/check.py $p --tier quick 2>&1); rc=$?
  echo "$p rc=$rc $(( $(date +%s) - s ))s $(echo "$out" | grep -cE '^VIOLATION') violations $(echo "$out" | grep -cE '^KNOWN-FINDING') known | $(echo "$out" | tail -1 | cut -c1-120)"
done
