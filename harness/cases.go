package main

// cases.go: spec -> code for the pure functions.  TLC emits (input,
// expected) lines; each function family has an evaluator that builds the
// input through the public API, calls the real method and projects the
// result into the spec's vocabulary.  code -> spec: seeded random generators
// record (input, observed) lines that a Check_*.tla module validates.

import (
	"bufio"
	"encoding/json"
	"flag"
	"fmt"
	"math/rand"
	"os"
	"reflect"

	stackage "github.com/JesseCoretta/go-stackage"
)

type CaseRec struct {
	In  Node `json:"in"`
	Exp any  `json:"exp,omitempty"`
	Out any  `json:"out,omitempty"`
	Arg any  `json:"arg,omitempty"`
	Alt any  `json:"alt,omitempty"` // as-built prediction: recognises a LISTED known finding only
}

type CaseReplay struct {
	Property string   `json:"property"`
	Kind     string   `json:"kind"` // "case"
	Fn       string   `json:"fn"`
	In       Node     `json:"in"`
	Arg      any      `json:"arg,omitempty"`
	Exp      any      `json:"exp"`
	Got      any      `json:"got"`
	Class    string   `json:"class"`
	Detail   []string `json:"detail"`
}

// evaluators: fn name -> (input node, arg) -> observed result in the spec's vocabulary
var evaluators = map[string]func(in Node, arg any) any{}

func safeEval(fn string, in Node, arg any) (out any) {
	defer func() {
		if r := recover(); r != nil {
			out = map[string]any{"PANIC": fmt.Sprint(r)}
		}
	}()
	return toGeneric(evaluators[fn](in, arg))
}

func init() {
	evaluators["render"] = func(in Node, _ any) any {
		v := BuildNode(in)
		switch tv := v.(type) {
		case stackage.Stack:
			first := tv.String()
			// the rendering is a function of the CURRENT configuration, not of what was rendered before: flip case folding
			// after the first rendering and compare with an independently built twin that had it flipped from the start
			twinIn := toGeneric(in).(map[string]any)
			twinIn["fold"] = !nBool(in, "fold")
			if twin, ok := BuildNode(twinIn).(stackage.Stack); ok {
				tv.SetFold()
				if second, want := tv.String(), twin.String(); second != want {
					return Tokenize("HISTORY-DEPENDENT rendering after toggling fold: " + second + " / fresh: " + want)
				}
				tv.SetFold()
				if third := tv.String(); third != first {
					return Tokenize("HISTORY-DEPENDENT rendering after toggling fold twice: " + third + " / first: " + first)
				}
			}
			return Tokenize(first)
		case stackage.Condition:
			return Tokenize(tv.String())
		}
		if s, ok := stackage.ConvertStack(v); ok {
			return Tokenize(s.String())
		}
		return []string{}
	}
}

// measure: what every Stack and Condition node reports about its own size, preorder (Measure of spec/Trees.tla)
func measure(x any) []any {
	out := []any{}
	if s, ok := stackage.ConvertStack(x); ok {
		out = append(out, map[string]any{"t": "stk", "len": s.Len(), "nesting": b2s(s.IsNesting()), "empty": b2s(s.IsEmpty())})
		// the elements through the raw Unmarshal-free path: Index on a copy of the options would skip nil ones, which report nothing anyway
		for i := 0; i < s.Len(); i++ {
			if e, ok := rawIndex(s, i); ok {
				out = append(out, measure(e)...)
			}
		}
	} else if c, ok := stackage.ConvertCondition(x); ok {
		out = append(out, map[string]any{"t": "cnd", "len": c.Len(), "nesting": b2s(c.IsNesting()), "empty": "n/a"})
		out = append(out, measure(c.Expression())...)
	}
	return out
}

// rawIndex: the i-th element regardless of the negative / forward index options of the stack
func rawIndex(s stackage.Stack, i int) (any, bool) {
	return s.Index(i)
}

func init() {
	evaluators["measure"] = func(in Node, _ any) any { return measure(BuildNode(in)) }
	treeGenerators["measure"] = func(g *treeGen) (Node, any) {
		g.nils = true
		return g.stack(0), nil
	}
}

func cmdCases(args []string) {
	fs := flag.NewFlagSet("cases", flag.ExitOnError)
	file := fs.String("cases", "", "case ndjson from TLC")
	fn := fs.String("fn", "render", "function family")
	prop := fs.String("prop", "", "property id")
	out := fs.String("mismatches", "", "ndjson receiving mismatch records")
	summ := fs.String("summary", "-", "summary json")
	maxrep := fs.Int("maxreport", 10, "mismatch records kept")
	_ = fs.Parse(args)
	if evaluators[*fn] == nil {
		die(2, "unknown function family %s", *fn)
	}
	f, err := os.Open(*file)
	if err != nil {
		die(2, "%v", err)
	}
	defer f.Close()
	of, err := os.Create(*out)
	if err != nil {
		die(2, "%v", err)
	}
	defer of.Close()
	enc := json.NewEncoder(of)
	sc := bufio.NewScanner(f)
	sc.Buffer(make([]byte, 1<<20), 1<<28)
	n, bad, known, deadlocks := 0, 0, 0, 0
	aborted := false
	var knownSample *CaseReplay
	distinct := map[string]bool{}
	var samples []any
	for sc.Scan() {
		if deadlocks >= 3 {
			// every further deadlocking case costs a watchdog timeout; three are proof enough
			aborted = true
			break
		}
		var c CaseRec
		if err := json.Unmarshal(sc.Bytes(), &c); err != nil {
			die(2, "case line %d: %v", n+1, err)
		}
		n++
		got := safeEval(*fn, c.In, c.Arg)
		exp := c.Exp
		if exp == nil {
			exp = []any{}
		}
		ej, _ := json.Marshal(exp)
		distinct[string(ej)] = true
		if !agrees(exp, got) && c.Alt != nil && reflect.DeepEqual(normEmpty(c.Alt), normEmpty(got)) {
			// wrong, but exactly the listed as-built outcome for this input
			known++
			if knownSample == nil {
				gj, _ := json.Marshal(got)
				knownSample = &CaseReplay{Property: *prop, Kind: "case", Fn: *fn, In: c.In, Arg: c.Arg, Exp: exp, Got: got,
					Class:  fmt.Sprintf("%s/%s/asbuilt", *prop, *fn),
					Detail: []string{fmt.Sprintf("expected %s", ej), fmt.Sprintf("observed (= as-built prediction) %s", gj)}}
			}
		} else if !agrees(exp, got) {
			if m, ok := got.(map[string]any); ok && m["DEADLOCK"] != nil {
				deadlocks++
			}
			bad++
			if bad <= *maxrep {
				gj, _ := json.Marshal(got)
				_ = enc.Encode(CaseReplay{Property: *prop, Kind: "case", Fn: *fn, In: c.In, Arg: c.Arg, Exp: exp, Got: got,
					Class:  fmt.Sprintf("%s/%s/case", *prop, *fn),
					Detail: []string{fmt.Sprintf("expected %s", ej), fmt.Sprintf("observed %s", gj)}})
			}
		} else if len(samples) < 3 && n%211 == 7 {
			samples = append(samples, map[string]any{"in": c.In, "arg": c.Arg, "result": got})
		}
	}
	if knownSample != nil {
		_ = enc.Encode(knownSample)
	}
	writeJSON(*summ, map[string]any{"cases": n, "mismatches": bad, "known_asbuilt": known, "distinct_expected": len(distinct), "samples": samples,
		"aborted_after_deadlocks": aborted})
}

// agrees: equality, or membership when the expectation is {"anyof": [...]}
func agrees(exp, got any) bool {
	if m, ok := exp.(map[string]any); ok {
		if l, ok := m["anyof"].([]any); ok && len(m) == 1 {
			for _, e := range l {
				if reflect.DeepEqual(normEmpty(e), normEmpty(got)) {
					return true
				}
			}
			return false
		}
	}
	return wildEq(normEmpty(exp), normEmpty(got))
}

// wildEq: deep equality in which the expectation "*" matches anything
// (explicit nondeterminism of the specification)
func wildEq(exp, got any) bool {
	if s, ok := exp.(string); ok && s == "*" {
		return true
	}
	switch e := exp.(type) {
	case map[string]any:
		g, ok := got.(map[string]any)
		if !ok {
			return false
		}
		for k, ev := range e {
			if !wildEq(ev, g[k]) {
				return false
			}
		}
		for k := range g {
			if _, ok := e[k]; !ok {
				return false
			}
		}
		return true
	case []any:
		g, ok := got.([]any)
		if !ok || len(g) != len(e) {
			return false
		}
		for i := range e {
			if !wildEq(e[i], g[i]) {
				return false
			}
		}
		return true
	}
	return reflect.DeepEqual(exp, got)
}

// normEmpty makes nil / empty list comparable
func normEmpty(x any) any {
	if l, ok := x.([]any); ok && len(l) == 0 {
		return []any{}
	}
	if x == nil {
		return []any{}
	}
	return x
}

func replayCase(b []byte) {
	var r CaseReplay
	if err := json.Unmarshal(b, &r); err != nil {
		die(2, "replay file: %v", err)
	}
	if evaluators[r.Fn] == nil {
		die(2, "unknown function family %s", r.Fn)
	}
	got := safeEval(r.Fn, r.In, r.Arg)
	if agrees(r.Exp, got) {
		fmt.Println("AGREES")
		return
	}
	ej, _ := json.Marshal(r.Exp)
	gj, _ := json.Marshal(got)
	fmt.Printf("DISAGREES kind=case fn=%s\n  expected %s\n  observed %s\n", r.Fn, ej, gj)
	os.Exit(1)
}

func init() {
	commands["cases"] = cmdCases
	replayKinds["case"] = replayCase
}

// ---- random trees (code -> spec) ---------------------------------------------

type treeGen struct {
	rng        *rand.Rand
	maxDepth   int
	forms      bool
	nils       bool
	validConds bool // only Conditions that pass Valid()
	f32        bool // float32 leaves among the values (rendering only)
}

var leafAlphabet = []string{"a", "b", "c", "x", "y", "z", "0", "7", "SP", "SP", "TAB", "U2", "U3", "U4", ",", ";", "=", "&", "(", ")", "-", "_", "A", "N", "D"}

func (g *treeGen) toks(min, max int, alphabet []string) []any {
	n := min + g.rng.Intn(max-min+1)
	out := []any{}
	for i := 0; i < n; i++ {
		out = append(out, alphabet[g.rng.Intn(len(alphabet))])
	}
	return out
}

func (g *treeGen) form() string {
	if !g.forms {
		return "native"
	}
	return []string{"native", "native", "alias", "walias", "xalias", "ptr"}[g.rng.Intn(6)]
}

func (g *treeGen) enc() []any {
	chars := [][]any{{"\""}, {"<"}, {">"}, {"'"}, {"["}, {"]"}, {"<", "<"}, {"U2"}}
	out := []any{}
	used := map[string]bool{}
	for i := 0; i < g.rng.Intn(3); i++ {
		if g.rng.Intn(3) == 0 {
			continue
		}
		a := chars[g.rng.Intn(len(chars))]
		var pair []any
		if g.rng.Intn(2) == 0 {
			pair = []any{a}
		} else {
			pair = []any{a, chars[g.rng.Intn(len(chars))]}
		}
		// only pairs the setter accepts (no side string reused)
		ok := true
		keys := []string{}
		for _, side := range pair {
			k := fmt.Sprint(side)
			if used[k] {
				ok = false
			}
			keys = append(keys, k)
		}
		if len(keys) == 2 && keys[0] == keys[1] {
			// a pair with identical sides is fine for the setter; keep it
		}
		if ok {
			for _, k := range keys {
				used[k] = true
			}
			out = append(out, pair)
		}
	}
	return out
}

func (g *treeGen) leaf() Node {
	switch g.rng.Intn(10) {
	case 0:
		return Node{"t": "leaf", "ty": "int", "v": []any{fmt.Sprint(1 + g.rng.Intn(8)), fmt.Sprint(g.rng.Intn(10))}}
	case 1:
		if g.rng.Intn(2) == 0 {
			return Node{"t": "leaf", "ty": "bool", "v": toksAny(Tokenize("true"))}
		}
		return Node{"t": "leaf", "ty": "bool", "v": toksAny(Tokenize("false"))}
	case 2:
		return Node{"t": "leaf", "ty": "str", "v": []any{}}
	case 3:
		if g.f32 && g.rng.Intn(3) == 0 {
			return Node{"t": "leaf", "ty": "f32", "v": toksAny(Tokenize([]string{"0.1", "1.1", "2.5", "3.3"}[g.rng.Intn(4)]))}
		}
	}
	v := g.toks(1, 6, leafAlphabet)
	// Unicode white space that is NOT a blank of the grammar, strictly inside the text (its edges are trimmed by the package)
	if len(v) >= 2 && g.rng.Intn(5) == 0 {
		i := 1 + g.rng.Intn(len(v)-1)
		isBlank := func(x any) bool { return x == "SP" || x == "TAB" }
		if !isBlank(v[i-1]) && !isBlank(v[i]) {
			ws := []any{[]string{"LF", "NB", "EM"}[g.rng.Intn(3)]}
			if g.rng.Intn(2) == 0 {
				ws = append(ws, []string{"LF", "NB", "EM"}[g.rng.Intn(3)])
			}
			v = append(v[:i:i], append(ws, v[i:]...)...)
		}
	}
	return Node{"t": "leaf", "ty": "str", "v": v}
}

func (g *treeGen) stack(depth int) Node {
	k := []string{"AND", "OR", "NOT", "LIST", "AND", "OR", "LIST", "BASIC"}[g.rng.Intn(8)]
	n := Node{"t": "stk", "k": k, "form": "native", "paren": g.rng.Intn(3) == 0, "fold": g.rng.Intn(3) == 0,
		"nspad": g.rng.Intn(3) == 0, "lonce": g.rng.Intn(4) == 0, "sym": []any{}, "delim": []any{}, "enc": g.enc(),
		"neg": false, "fwd": false, "mtx": false, "cap": 0}
	if k != "LIST" && g.rng.Intn(3) == 0 {
		n["sym"] = g.toks(1, 2, []string{"&", "|", "!", "+", "U2", "X", "o"})
	}
	if k == "LIST" && g.rng.Intn(2) == 0 {
		n["delim"] = g.toks(1, 2, []string{",", ";", "SP", "|"})
	}
	w := g.rng.Intn(5)
	kids := []any{}
	for i := 0; i < w; i++ {
		kids = append(kids, g.node(depth+1))
	}
	n["e"] = kids
	return n
}

func (g *treeGen) cond(depth int) Node {
	n := Node{"t": "cnd", "form": "native", "kw": g.toks(1, 3, []string{"k", "w", "d", "1"}),
		"op": []string{"Eq", "Ne", "Lt", "Gt", "Le", "Ge", "user", "none", "op9"}[g.rng.Intn(9)],
		"paren": g.rng.Intn(3) == 0, "nspad": g.rng.Intn(3) == 0, "enc": g.enc()}
	switch r := g.rng.Intn(10); {
	case r == 0:
		n["ex"] = Node{"t": "nil"}
	case r < 4 && depth < g.maxDepth:
		s := g.stack(depth + 1)
		s["form"] = g.form()
		n["ex"] = s
	case r == 4 && depth < g.maxDepth:
		c := g.cond(depth + 1)
		c["form"] = g.form()
		n["ex"] = c
	default:
		l := g.leaf()
		if len(l["v"].([]any)) == 0 {
			l = Node{"t": "leaf", "ty": "str", "v": []any{"v"}}
		}
		n["ex"] = l
	}
	if g.rng.Intn(12) == 0 {
		n["kw"] = []any{}
	}
	if g.validConds {
		if n["op"] == "none" {
			n["op"] = "Eq"
		}
		if len(n["kw"].([]any)) == 0 {
			n["kw"] = []any{"k"}
		}
		if ex, _ := n["ex"].(Node); ex != nil && ex["t"] == "nil" {
			n["ex"] = Node{"t": "leaf", "ty": "str", "v": []any{"v"}}
		}
	}
	return n
}

func (g *treeGen) node(depth int) Node {
	r := g.rng.Intn(10)
	switch {
	case r < 5 || depth >= g.maxDepth:
		if g.nils && g.rng.Intn(8) == 0 {
			return Node{"t": "nil"}
		}
		return g.leaf()
	case r < 8:
		s := g.stack(depth)
		s["form"] = g.form()
		return s
	default:
		c := g.cond(depth)
		c["form"] = g.form()
		return c
	}
}

func cmdTreeGen(args []string) {
	fs := flag.NewFlagSet("treegen", flag.ExitOnError)
	out := fs.String("out", "", "output ndjson")
	fn := fs.String("fn", "render", "function family")
	seed := fs.Int64("seed", 1, "seed")
	n := fs.Int("n", 2000, "number of trees")
	depth := fs.Int("depth", 3, "maximum depth")
	forms := fs.Bool("forms", true, "use alias / pointer forms")
	_ = fs.Parse(args)
	f, err := os.Create(*out)
	if err != nil {
		die(2, "%v", err)
	}
	defer f.Close()
	w := bufio.NewWriterSize(f, 1<<20)
	defer w.Flush()
	enc := json.NewEncoder(w)
	g := &treeGen{rng: rand.New(rand.NewSource(*seed)), maxDepth: *depth, forms: *forms}
	gens := treeGenerators[*fn]
	if gens == nil {
		die(2, "no random generator for %s", *fn)
	}
	made, deadlocks := 0, 0
	for i := 0; i < *n && deadlocks < 3; i++ {
		in, arg := gens(g)
		in = toGeneric(in).(map[string]any)
		rec := map[string]any{"in": in, "out": safeEval(*fn, in, arg), "panic": ""}
		if m, ok := rec["out"].(map[string]any); ok {
			if pm, isp := m["PANIC"]; isp {
				// keep the record shape the Check_* module expects; the panic itself is the finding
				rec["panic"] = fmt.Sprint(pm)
				rec["out"] = []any{}
			} else if dm, isd := m["DEADLOCK"]; isd {
				rec["panic"] = "DEADLOCK: " + fmt.Sprint(dm)
				rec["out"] = []any{}
			}
		}
		if m, ok := rec["out"].(map[string]any); ok && m["DEADLOCK"] != nil {
			deadlocks++
		}
		made++
		if arg != nil {
			rec["arg"] = arg // TLC's Json module rejects null
		}
		_ = enc.Encode(rec)
	}
	fmt.Printf("{\"cases\": %d}\n", made)
}

var treeGenerators = map[string]func(g *treeGen) (Node, any){
	"render": func(g *treeGen) (Node, any) {
		g.f32 = true // float32 leaves: only the rendering is specified for them
		s := g.stack(0)
		for s["k"] == "BASIC" && g.rng.Intn(4) != 0 {
			s = g.stack(0)
		}
		return s, nil
	},
}

func init() { commands["treegen"] = cmdTreeGen }
