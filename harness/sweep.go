package main

// sweep.go: reflection-driven sweeps over the whole exported method set of
// Stack / Condition (so methods added later are included).  The sweep only
// RECORDS facts -- receiver state before and after (a deep canonical snapshot
// through the VerifDump hook), whether the call panicked, which results were
// non-zero -- as one ndjson event per call; the rules that decide C08 / C09 /
// C11 / C17 live in spec/Frame.tla, which validates the event file.

import (
	"bufio"
	"crypto/sha256"
	"encoding/hex"
	"encoding/json"
	"errors"
	"flag"
	"fmt"
	"log"
	"math"
	"math/rand"
	"os"
	"reflect"
	"sort"
	"strings"

	stackage "github.com/JesseCoretta/go-stackage"
)

// ---- deep snapshot ------------------------------------------------------

type snapParts struct {
	Live  bool
	Ronly bool
	Err   string
	Rest  string // everything else, canonical
}

func snapValue(x any, depth int) any {
	if depth > 8 {
		return "<deep>"
	}
	if s, ok := stackage.ConvertStack(x); ok {
		return map[string]any{"T": fmt.Sprintf("%T", x), "stack": snapStack(s, depth+1, false)}
	}
	if c, ok := stackage.ConvertCondition(x); ok {
		return map[string]any{"T": fmt.Sprintf("%T", x), "cond": snapCond(c, depth+1, false)}
	}
	if x == nil {
		return "nil"
	}
	if e, ok := x.(error); ok {
		return "error|" + e.Error()
	}
	rv := reflect.ValueOf(x)
	switch rv.Kind() {
	case reflect.Func, reflect.Chan, reflect.Map, reflect.UnsafePointer:
		return fmt.Sprintf("%T@%x", x, rv.Pointer())
	case reflect.Ptr:
		if rv.IsNil() {
			return fmt.Sprintf("%T(nil)", x)
		}
		return fmt.Sprintf("%T@%x", x, rv.Pointer())
	case reflect.Slice, reflect.Array:
		out := []any{fmt.Sprintf("%T", x)}
		for i := 0; i < rv.Len() && i < 64; i++ {
			out = append(out, snapValue(rv.Index(i).Interface(), depth+1))
		}
		return out
	}
	return fmt.Sprintf("%T|%v", x, x)
}

func cfgRest(cfg map[string]any) (rest map[string]any, ronly bool, err string) {
	rest = map[string]any{}
	for k, v := range cfg {
		switch k {
		case "opt":
			o, _ := v.(int)
			ronly = o&128 != 0
			rest["opt"] = o &^ 128
		case "err":
			if v != nil {
				err = fmt.Sprint(v)
			}
		default:
			rest[k] = v
		}
	}
	return
}

func snapStack(s stackage.Stack, depth int, top bool) map[string]any {
	d := stackage.VerifDump(s)
	out := map[string]any{}
	if d["zero"] == true {
		out["zero"] = true
		return out
	}
	cfg, _ := d["cfg"].(map[string]any)
	rest, ro, er := cfgRest(cfg)
	out["cfg"] = rest
	if !top {
		out["ronly"], out["err"] = ro, er
	}
	out["rawlen"], out["slot0cfg"], out["cfgslots"] = d["rawlen"], d["slot0cfg"], d["cfgslots"]
	var slots []any
	if sl, ok := d["slots"].([]any); ok {
		for _, x := range sl {
			slots = append(slots, snapValue(x, depth))
		}
	}
	out["slots"] = slots
	return out
}

func snapCond(c stackage.Condition, depth int, top bool) map[string]any {
	d := stackage.VerifDump(c)
	out := map[string]any{}
	if d["zero"] == true {
		out["zero"] = true
		return out
	}
	cfg, _ := d["cfg"].(map[string]any)
	rest, ro, er := cfgRest(cfg)
	out["cfg"] = rest
	if !top {
		out["ronly"], out["err"] = ro, er
	}
	out["kw"] = d["kw"]
	if op, ok := d["op"].(stackage.Operator); ok && op != nil {
		out["op"] = fmt.Sprintf("%T|%s|%s", op, safeS(op.String), safeS(op.Context))
	} else {
		out["op"] = "nil"
	}
	out["ex"] = snapValue(d["ex"], depth)
	return out
}

// Snap returns the split deep snapshot of a Stack or Condition receiver.
func Snap(x any) (p snapParts) {
	defer func() {
		if r := recover(); r != nil {
			p = snapParts{Live: false, Rest: "SNAP-PANIC:" + fmt.Sprint(r)}
		}
	}()
	var m map[string]any
	switch tv := x.(type) {
	case stackage.Stack:
		if tv.IsZero() {
			return snapParts{Rest: "zero"}
		}
		d := stackage.VerifDump(tv)
		cfg, _ := d["cfg"].(map[string]any)
		_, p.Ronly, p.Err = cfgRest(cfg)
		p.Live = tv.IsInit()
		m = snapStack(tv, 0, true)
	case stackage.Condition:
		if tv.IsZero() {
			return snapParts{Rest: "zero"}
		}
		d := stackage.VerifDump(tv)
		cfg, _ := d["cfg"].(map[string]any)
		_, p.Ronly, p.Err = cfgRest(cfg)
		p.Live = tv.IsInit()
		m = snapCond(tv, 0, true)
	}
	j, _ := json.Marshal(m) // map keys are sorted by encoding/json
	LastSnapText = string(j)
	h := sha256.Sum256(j)
	p.Rest = hex.EncodeToString(h[:8])
	return
}

// LastSnapText keeps the canonical text of the most recent snapshot (diagnosis).
var LastSnapText string

// ---- argument synthesis ---------------------------------------------------

type userOp string

func (u userOp) String() string  { return string(u) }
func (u userOp) Context() string { return "user" }

type emptyOp struct{}

func (emptyOp) String() string  { return "" }
func (emptyOp) Context() string { return "" }

type privStruct struct {
	A int
	b string
}
type strer struct{ s string }

func (s strer) String() string { return s.s }

type named struct {
	name string
	v    any
}

var sentinelErr = errors.New("sentinel")

// awkward values (C08): each is built fresh per use where identity matters
func awkwardCatalogue() []named {
	var np *int
	var npp **int
	var nstk *AStack
	var ncnd *ACond
	var nnative *stackage.Stack
	one := 1
	pone := &one
	var nilmap map[string]int
	var nilfn func()
	var nilch chan int
	var nilsl []any
	var nilerr error
	zeroAlias := AStack{}
	return []named{
		{"nil", nil},
		{"typednil-*int", np},
		{"typednil-**int", npp},
		{"typednil-*AStack", nstk},
		{"typednil-*ACond", ncnd},
		{"typednil-*Stack", nnative},
		{"typednil-*Condition", (*stackage.Condition)(nil)},
		{"typednil-*ComparisonOperator", (*stackage.ComparisonOperator)(nil)},
		{"ptr-to-typednil", &np},
		{"zero-Stack", stackage.Stack{}},
		{"zero-Condition", stackage.Condition{}},
		{"zero-alias", zeroAlias},
		{"ptr-zero-alias", &zeroAlias},
		{"func", func() {}},
		{"nil-func", nilfn},
		{"chan", make(chan int)},
		{"nil-chan", nilch},
		{"map", map[string]int{"a": 1}},
		{"nil-map", nilmap},
		{"NaN", math.NaN()},
		{"priv-struct", privStruct{1, "x"}},
		{"ptr-priv-struct", &privStruct{1, "x"}},
		{"ptr-ptr-int", &pone},
		{"nil-slice", nilsl},
		{"slice-of-nil", []any{nil, nil}},
		{"empty-string", ""},
		{"stringer", strer{"s"}},
		{"empty-stringer", strer{""}},
		{"nil-error-iface", nilerr},
		{"init-only-cond", func() any { var c stackage.Condition; c.Init(); return c }()},
		{"opless-cond", func() any { var c stackage.Condition; c.Init(); c.SetKeyword("k"); c.SetExpression("v"); return c }()},
		{"emptykw-cond", stackage.Cond("", stackage.Ge, "value")},
		{"oponly-cond", func() any { var c stackage.Condition; c.Init(); c.SetOperator(stackage.Ne); return c }()},
		{"alias-cond", ACond(stackage.Cond("k", stackage.Eq, "v"))},
		{"basic-stack", stackage.Basic().Push(1)},
		{"alias-stack", AStack(stackage.And().Push("x"))},
		{"ptr-alias-stack", func() any { a := AStack(stackage.And().Push("x")); return &a }()},
		{"unsafe-op", stackage.ComparisonOperator(0)},
		{"rune", 'x'},
		{"int", 7},
		{"string", "str"},
		{"[]string{}", []string{}},
		{"[]string3", []string{"a", "b", "c"}},
		// whole structures whose leaves are awkward for a comparison with the "AND-awkward-leaves" / "cond-awkward-leaf" receivers:
		// same shape, but a DIFFERENT struct type (embedded field exported on one side only), nil pointers inside slices, []any of mixed things
		{"stack-awkward-leaves", awkwardLeafStack(true)},
		{"stack-awkward-maps", awkwardMapStack(true)},
		{"stack-awkward-nils", awkwardNilStack(true)},
		{"stack-awkward-nils2", awkwardNilStack(false)},
		{"cond-awkward-leaf", stackage.Cond("k", stackage.Eq, eqStructX{A: 1, C: "c"})},
	}
}

// awkwardMapStack: maps of the same type and length whose KEY SETS differ from the other side's, and a NaN-keyed map
// (a key that can never be looked up again, not even in an identical copy)
func awkwardMapStack(other bool) stackage.Stack {
	k2 := "b"
	if other {
		k2 = "c"
	}
	return stackage.And().Push(map[float64]int{math.NaN(): 1}, map[string]int{"a": 1, k2: 2}, map[string]any{"x": nil, k2: 1})
}

// awkwardNilStack: the same shapes with nil pointers on ONE side only (live element against nil element, both ways round)
func awkwardNilStack(other bool) stackage.Stack {
	var np *int
	one, two := 1, 2
	if other {
		return stackage.And().Push([]*int{np, &two}, [2]*int{&one, np}, map[string]*int{"k": np})
	}
	return stackage.And().Push([]*int{&one, &two}, [2]*int{&one, &two}, map[string]*int{"k": &one})
}

// awkwardPairs: ONE leaf on each side (IsEqual stops at the first difference, so every awkward meeting gets its own pair);
// each pair is compared as a Stack element and as a Condition expression, both ways round
func awkwardPairs() [][2]any {
	var np *int
	var nm *map[string]int
	one, two := 1, 2
	return [][2]any{
		{[]*int{&one, &two}, []*int{np, &two}},
		{[2]*int{&one, &two}, [2]*int{&one, np}},
		{map[string]*int{"k": &one}, map[string]*int{"k": np}},
		{map[string]int{"a": 1}, nm},  // a map against a typed nil pointer to the same map type
		{map[string]int{"a": 1}, &nm}, // ... against a pointer to such a nil pointer
		{map[string]any{"m": map[string]int{"a": 1}}, map[string]any{"m": nm}},
		{map[string]int{"a": 1, "b": 2}, map[string]int{"a": 1, "c": 2}},
		{map[float64]int{math.NaN(): 1}, map[float64]int{math.NaN(): 1}},
		{eqStructP{A: 1, C: "c"}, eqStructX{A: 1, C: "c"}},
		{[]any{1, nil}, []any{nil, 1}},
		{privStruct{1, "x"}, &privStruct{1, "x"}},
	}
}

// pairMakers / pairArg: the receivers and arguments of the awkward-pair events, by name (used by the sweep and by replays)
func pairMakers() []recvMaker {
	var out []recvMaker
	for i, pr := range awkwardPairs() {
		for dir := 0; dir < 2; dir++ {
			x := pr[dir]
			out = append(out, recvMaker{fmt.Sprintf("pair%d-%d-stack", i, dir), "Stack", func() any { return stackage.And().Push(x) }},
				recvMaker{fmt.Sprintf("pair%d-%d-cond", i, dir), "Condition", func() any { return stackage.Cond("k", stackage.Eq, x) }})
		}
	}
	return out
}

func pairArg(recv string) (argSet, bool) {
	var i, dir int
	var kind string
	if n, _ := fmt.Sscanf(strings.ReplaceAll(recv, "-", " "), "pair%d %d %s", &i, &dir, &kind); n != 3 || i >= len(awkwardPairs()) || dir > 1 {
		return argSet{}, false
	}
	y := awkwardPairs()[i][1-dir]
	if kind == "stack" {
		return argSet{"(stack holding the other leaf)", []reflect.Value{reflect.ValueOf(stackage.And().Push(y))}}, true
	}
	return argSet{"(condition holding the other leaf)", []reflect.Value{reflect.ValueOf(stackage.Cond("k", stackage.Eq, y))}}, true
}

func awkwardLeafStack(other bool) stackage.Stack {
	var np *int
	one := 1
	var st any = eqStructP{A: 1, C: "c"}
	if other {
		st = eqStructX{A: 1, C: "c"}
	}
	// (no []any leaf: Unmarshal hands leaves out as they are, and the sweep's scribbling over the returned mimicry could not
	// tell a leaf []any from the mimicry of a nested Stack)
	return stackage.And().Push([]*int{&one, np}, map[string]any{"k": np, "j": 1}, [2]*int{np, &one}, st, map[string]any{"s": st})
}

func plainAnys() []named {
	return []named{
		{"str", "x"}, {"nil", nil}, {"int", 3},
		{"stack", stackage.Or().Push("y")}, {"cond", stackage.Cond("k", stackage.Ne, "w")},
		{"[]string", []string{"<", ">"}}, {"rune", ','}, {"level", stackage.LogLevel3}, {"lname", "debug"},
	}
}

var (
	tAny      = reflect.TypeOf((*any)(nil)).Elem()
	tErr      = reflect.TypeOf((*error)(nil)).Elem()
	tOperator = reflect.TypeOf((*stackage.Operator)(nil)).Elem()
)

// variants returns argument candidates for one (non-variadic) parameter type.
func variants(t reflect.Type, anys []named) []named {
	switch {
	case t == tAny:
		return anys
	case t == tErr:
		return []named{{"nil", reflect.Zero(tErr)}, {"err", sentinelErr}}
	case t == tOperator:
		return []named{{"Eq", stackage.Eq}, {"nil", reflect.Zero(tOperator)}, {"op0", stackage.ComparisonOperator(0)},
			{"op9", stackage.ComparisonOperator(9)}, {"user", userOp("~=")}, {"emptyop", emptyOp{}},
			{"tnilop", (*stackage.ComparisonOperator)(nil)}}
	}
	switch t.Kind() {
	case reflect.Int:
		return []named{{"0", 0}, {"1", 1}, {"-1", -1}, {"5", 5}, {"min", math.MinInt}, {"max", math.MaxInt}}
	case reflect.Bool:
		return []named{{"true", true}, {"false", false}}
	case reflect.String:
		return []named{{"empty", ""}, {"x", "x"}, {"_random", "_random"}, {"_addr", "_addr"}}
	case reflect.Func:
		return []named{{"nilfn", reflect.Zero(t)}, {"fn", makeFunc(t)}}
	case reflect.Map: // Auxiliary
		nm := reflect.MakeMap(t)
		nm.SetMapIndex(reflect.ValueOf("k"), reflect.ValueOf(1))
		return []named{{"nilmap", reflect.Zero(t)}, {"map", nm}}
	case reflect.Ptr: // *log.Logger
		return []named{{"nilptr", reflect.Zero(t)}}
	}
	return []named{{"zero", reflect.Zero(t)}}
}

// makeFunc fabricates a closure of the requested policy type whose results
// are recognisable sentinels.
func makeFunc(t reflect.Type) any {
	return reflect.MakeFunc(t, func(args []reflect.Value) []reflect.Value {
		out := make([]reflect.Value, t.NumOut())
		for i := 0; i < t.NumOut(); i++ {
			ot := t.Out(i)
			switch {
			case ot == tErr:
				out[i] = reflect.Zero(ot)
			case ot.Kind() == reflect.String:
				out[i] = reflect.ValueOf("<<closure>>")
			case ot.Kind() == reflect.Bool:
				out[i] = reflect.ValueOf(true)
			default:
				out[i] = reflect.Zero(ot)
			}
		}
		return out
	}).Interface()
}

func toValue(t reflect.Type, v any) reflect.Value {
	if rv, ok := v.(reflect.Value); ok {
		return rv
	}
	if v == nil {
		return reflect.Zero(t)
	}
	rv := reflect.ValueOf(v)
	if rv.Type() != t && rv.Type().ConvertibleTo(t) && t.Kind() != reflect.Interface {
		return rv.Convert(t)
	}
	return rv
}

type argSet struct {
	desc string
	vals []reflect.Value
}

// argSets enumerates argument tuples for a method type (receiver excluded).
func argSets(mt reflect.Type, anys []named, limit int) []argSet {
	n := mt.NumIn()
	sets := []argSet{{}}
	for i := 0; i < n; i++ {
		pt := mt.In(i)
		var next []argSet
		if mt.IsVariadic() && i == n-1 {
			et := pt.Elem()
			vs := variants(et, anys)
			// (), one of each, and one mixed pair
			for _, s := range sets {
				next = append(next, argSet{s.desc + "()", s.vals})
				for _, v := range vs {
					next = append(next, argSet{s.desc + "(" + v.name + ")", append(append([]reflect.Value{}, s.vals...), toValue(et, v.v))})
				}
				if len(vs) >= 2 {
					next = append(next, argSet{s.desc + "(" + vs[0].name + "," + vs[len(vs)-1].name + ")",
						append(append([]reflect.Value{}, s.vals...), toValue(et, vs[0].v), toValue(et, vs[len(vs)-1].v))})
				}
			}
		} else {
			for _, s := range sets {
				for _, v := range variants(pt, anys) {
					next = append(next, argSet{s.desc + v.name + ",", append(append([]reflect.Value{}, s.vals...), toValue(pt, v.v))})
				}
			}
		}
		sets = next
		if len(sets) > limit {
			sets = sets[:limit]
		}
	}
	return sets
}

// ---- receivers ------------------------------------------------------------

type recvMaker struct {
	name string
	typ  string // Stack | Condition
	mk   func() any
}

func liveStackMakers() []recvMaker {
	var out []recvMaker
	for _, k := range allKinds {
		k := k
		out = append(out, recvMaker{k + "-empty", "Stack", func() any { return NewKind(k, 0) }})
		out = append(out, recvMaker{k + "-ab", "Stack", func() any { return NewKind(k, 0).Push("a", "b") }})
	}
	out = append(out,
		recvMaker{"AND-cap3-full", "Stack", func() any { return stackage.And(3).Push("a", "b", "c") }},
		recvMaker{"OR-nested", "Stack", func() any {
			return stackage.Or().Push("a", nil, stackage.And().Push("x", stackage.Not().Push("n")),
				stackage.Cond("k", stackage.Eq, stackage.List().Push(1, 2)), AStack(stackage.List().Push("z")))
		}},
		recvMaker{"LIST-configured", "Stack", func() any {
			return stackage.List().SetDelimiter(",").SetEncap(`"`).SetID("id1").SetCategory("c1").
				SetAuxiliary(stackage.Auxiliary{"k": 1}).SetFIFO(true).SetNegativeIndices(true).Push("p", "q")
		}},
		recvMaker{"AND-mutex-policies", "Stack", func() any {
			s := stackage.And().SetMutex().SetSymbol("&&").SetParen(true).SetLogLevel("debug")
			s.SetPushPolicy(func(...any) error { return nil })
			s.SetValidityPolicy(func(...any) error { return nil })
			return s.Push("m", "n")
		}},
		recvMaker{"AND-stored-err", "Stack", func() any { // an error recorded earlier: looking at it (Err) is a query like any other
			s := stackage.And().Push("a", stackage.Cond("k", stackage.Eq, "v"))
			s.SetErr(sentinelErr)
			return s
		}},
		recvMaker{"OR-holding-ro-stack", "Stack", func() any {
			return stackage.Or().Push("x", stackage.And().Push("a").SetReadOnly(true))
		}},
		recvMaker{"AND-awkward-leaves", "Stack", func() any { return awkwardLeafStack(false) }},
		recvMaker{"AND-awkward-maps", "Stack", func() any { return awkwardMapStack(false) }},
		recvMaker{"AND-awkward-nils", "Stack", func() any { return awkwardNilStack(false) }},
		recvMaker{"AND-awkward-nils2", "Stack", func() any { return awkwardNilStack(true) }},
		recvMaker{"AND-shared-encap", "Stack", func() any {
			// the encapsulation schemes of parent and child are slices of ONE backing array, the parent's with spare capacity:
			// a query that appends to what it was given would write into the child's configuration
			pair := []string{"<", ">"}
			inner := stackage.Or().SetEncap(pair).Push("b", "c")
			return stackage.And().SetEncap(pair[:1]).Push("a", inner, stackage.Cond("k", stackage.Eq, "v").SetEncap(pair[:1]))
		}},
		recvMaker{"OR-idxopts-nested-last", "Stack", func() any {
			// both index options on and a non-empty nested Stack as the LAST element: a helper that looks one past the end
			// (Reveal's and Defrag's scans) is handed the last element instead of nothing
			return stackage.Or().SetForwardIndices(true).SetNegativeIndices(true).Push("x", stackage.And().Push("a", "b"))
		}},
		recvMaker{"OR-failing-validity", "Stack", func() any {
			s := stackage.Or().Push("v1", "v2")
			s.SetValidityPolicy(func(...any) error { return sentinelErr })
			return s
		}},
		recvMaker{"NOT-closures", "Stack", func() any {
			s := stackage.Not().Push("c1")
			s.SetPresentationPolicy(func(...any) string { return "<<closure>>" })
			s.SetEqualityPolicy(func(any, any) error { return nil })
			s.SetUnmarshaler(func(...any) ([]any, error) { return []any{"U"}, nil })
			s.SetMarshaler(func(...any) error { return nil })
			s.SetLessFunc(func(i, j int) bool { return i < j })
			return s
		}},
	)
	return out
}

func liveCondMakers() []recvMaker {
	return []recvMaker{
		{"cond-prim", "Condition", func() any { return stackage.Cond("k", stackage.Eq, "v") }},
		{"cond-stack", "Condition", func() any { return stackage.Cond("k", stackage.Ge, stackage.And().Push("a", nil, "b")) }},
		{"cond-configured", "Condition", func() any {
			return stackage.Cond("k", userOp("~="), 5).SetEncap(`"`).SetParen(true).SetID("cid").SetCategory("cc").SetAuxiliary(stackage.Auxiliary{"z": 2})
		}},
		{"cond-initonly", "Condition", func() any { var c stackage.Condition; c.Init(); return c }},
		// writable itself, but HOLDING a read-only Stack (native / alias): the Condition's own flag decides what may be done to it
		{"cond-holding-ro-stack", "Condition", func() any {
			return stackage.Cond("k", stackage.Eq, stackage.And().Push("a", "b").SetReadOnly(true))
		}},
		{"cond-holding-ro-alias", "Condition", func() any {
			return stackage.Cond("k", stackage.Ge, AStack(stackage.Or().Push("a").SetReadOnly(true)))
		}},
		{"cond-stored-err", "Condition", func() any {
			c := stackage.Cond("k", stackage.Eq, "v")
			c.SetErr(sentinelErr)
			return c
		}},
		{"cond-awkward-leaf", "Condition", func() any { return stackage.Cond("k", stackage.Eq, eqStructP{A: 1, C: "c"}) }},
		{"cond-failing-validity", "Condition", func() any {
			c := stackage.Cond("k", stackage.Eq, "v")
			c.SetValidityPolicy(func(...any) error { return sentinelErr })
			return c
		}},
		{"cond-closures", "Condition", func() any {
			c := stackage.Cond("k", stackage.Le, stackage.List().Push("e"))
			c.SetPresentationPolicy(func(...any) string { return "<<closure>>" })
			c.SetEqualityPolicy(func(any, any) error { return nil })
			c.SetUnmarshaler(func(...any) ([]any, error) { return []any{"U"}, nil })
			c.SetEvaluator(func(...any) (any, error) { return 1, nil })
			return c
		}},
	}
}

func deadMakers() []recvMaker {
	return []recvMaker{
		{"zero-stack", "Stack", func() any { return stackage.Stack{} }},
		{"freed-stack", "Stack", func() any { s := stackage.And().Push("a"); _ = s.Free(); return s }},
		{"zero-cond", "Condition", func() any { return stackage.Condition{} }},
		{"freed-cond", "Condition", func() any { c := stackage.Cond("k", stackage.Eq, "v"); _ = c.Free(); return c }},
	}
}

func setRO(x any) any {
	switch tv := x.(type) {
	case stackage.Stack:
		return tv.SetReadOnly(true)
	case stackage.Condition:
		return tv.SetReadOnly(true)
	}
	return x
}

// ---- events ---------------------------------------------------------------

type SweepEvent struct {
	Ev       string   `json:"ev"` // call | reset
	Mode     string   `json:"mode"`
	Recv     string   `json:"recv"`
	Typ      string   `json:"typ"`
	Method   string   `json:"method"`
	Args     string   `json:"args"`
	Panic    string   `json:"panic"` // "" or the message
	PreLive  string   `json:"prelive"`
	PreRO    string   `json:"prero"`
	PreErr   string   `json:"preerr"`
	Pre      string   `json:"pre"`
	PostLive string   `json:"postlive"`
	PostRO   string   `json:"postro"`
	PostErr  string   `json:"posterr"`
	Post     string   `json:"post"`
	NonZero  []string `json:"nonzero"` // indices ("0","1") of non-zero results
	ErrRes   string   `json:"errres"`  // "true" if an error-typed result was non-nil
	Again    string   `json:"again"`   // query repeated: "same" | "differs" | "n/a"
	Health   string   `json:"health"`  // post-call usability probe: "ok" | message | "n/a"
	Twin     string   `json:"twin"`    // a SECOND handle to the same instance, taken before the call: "same" | "changed" afterwards
}

func holderOf(x any) reflect.Value {
	// an addressable copy so that pointer-receiver methods (Free, Marshal, Init) work
	p := reflect.New(reflect.TypeOf(x))
	p.Elem().Set(reflect.ValueOf(x))
	return p
}

func resultFacts(res []reflect.Value) (nz []string, errres string) {
	nz = []string{}
	errres = "false"
	for i, r := range res {
		if r.Type() == tErr {
			if !r.IsNil() {
				errres = "true"
			}
			continue
		}
		zero := r.IsZero()
		// a fluent return of the (still zero) receiver counts as zero
		if !zero {
			nz = append(nz, fmt.Sprint(i))
		}
	}
	return
}

func fmtResults(res []reflect.Value) string {
	var parts []string
	for _, r := range res {
		parts = append(parts, fmt.Sprintf("%v", snapValue(r.Interface(), 0)))
	}
	return strings.Join(parts, ";")
}

func health(x any) (h string) {
	defer func() {
		if r := recover(); r != nil {
			h = "PANIC in health probe: " + fmt.Sprint(r)
		}
	}()
	switch tv := x.(type) {
	case stackage.Stack:
		if tv.IsZero() {
			return "ok"
		}
		if !tv.IsInit() {
			return "receiver no longer initialised"
		}
		_ = tv.String()
		_, _ = tv.Unmarshal()
		_ = tv.IsEqual(tv)
		_ = tv.IsEqual(stackage.And().Push("zz"))
		_ = tv.Len()
		for i := -1; i <= tv.Len(); i++ {
			_, _ = tv.Index(i)
		}
		_, _ = tv.Traverse(0, 0)
		_ = tv.Less(0, 1)
		_ = tv.Valid()
		_ = tv.Kind()
		_ = tv.IsNesting()
	case stackage.Condition:
		if tv.IsZero() {
			return "ok"
		}
		_ = tv.String()
		_, _ = tv.Unmarshal()
		_ = tv.IsEqual(tv)
		_ = tv.IsEqual(stackage.Cond("q", stackage.Lt, 1))
		_ = tv.Len()
		_ = tv.Valid()
		_ = tv.IsNesting()
	}
	return "ok"
}

type sweeper struct {
	enc     *json.Encoder
	events  int
	methods map[string]bool
}

func (sw *sweeper) call(mode string, rm recvMaker, holder reflect.Value, m reflect.Method, as argSet, probe bool, again bool) (panicked bool) {
	cur := holder.Elem().Interface()
	pre := Snap(cur)
	twin := cur // a second handle (value copy of the handle, same underlying instance): what OTHER holders of the instance see
	ev := SweepEvent{Ev: "call", Mode: mode, Recv: rm.name, Typ: rm.typ, Method: m.Name, Args: as.desc,
		PreLive: b2s(pre.Live), PreRO: b2s(pre.Ronly), PreErr: pre.Err, Pre: pre.Rest, Again: "n/a", Health: "n/a"}
	var res []reflect.Value
	func() {
		defer func() {
			if r := recover(); r != nil {
				ev.Panic = fmt.Sprint(r)
				if ev.Panic == "" {
					ev.Panic = "panic"
				}
			}
		}()
		res = holder.Method(m.Index).Call(as.vals)
	}()
	ev.NonZero, ev.ErrRes = []string{}, "false"
	firstFmt := ""
	if ev.Panic == "" {
		firstFmt = fmtResults(res) // before the returned container is scribbled over
	}
	if ev.Panic == "" && m.Name == "Unmarshal" && len(res) > 0 {
		// scribble over the returned container: the receiver must not notice
		scribble(res[0].Interface(), 0)
	}
	if ev.Panic == "" {
		ev.NonZero, ev.ErrRes = resultFacts(res)
		if again {
			var res2 []reflect.Value
			func() {
				defer func() {
					if r := recover(); r != nil {
						ev.Again = "panic on repeat: " + fmt.Sprint(r)
					}
				}()
				res2 = holder.Method(m.Index).Call(as.vals)
			}()
			if ev.Again == "n/a" {
				if firstFmt == fmtResults(res2) {
					ev.Again = "same"
				} else {
					ev.Again = "differs"
				}
			}
		}
	}
	post := Snap(holder.Elem().Interface())
	ev.PostLive, ev.PostRO, ev.PostErr, ev.Post = b2s(post.Live), b2s(post.Ronly), post.Err, post.Rest
	ev.Twin = "same"
	if tp := Snap(twin); strings.HasPrefix(tp.Rest, "SNAP-PANIC") {
		ev.Twin = "panic: " + tp.Rest // the other holders of the instance can no longer even look at it
	} else if tp.Live != pre.Live || tp.Ronly != pre.Ronly || tp.Err != pre.Err || tp.Rest != pre.Rest {
		ev.Twin = "changed"
	} else if m.Name == "Free" && pre.Live {
		// the handle Free was called on is gone; every other handle must stay usable
		if hh := health(twin); hh != "ok" {
			ev.Twin = "panic: unusable after Free on another handle: " + hh
		}
	}
	if probe && ev.Panic == "" {
		ev.Health = health(holder.Elem().Interface())
	}
	_ = sw.enc.Encode(ev)
	sw.events++
	sw.methods[rm.typ+"."+m.Name] = true
	return ev.Panic != ""
}

// probeMutable clears the read-only flag (recorded as an ordinary event, so
// the frame rule for SetReadOnly applies) and then records whether a plain
// setter takes effect again.
func (sw *sweeper) probeMutable(rm recvMaker, h reflect.Value, ms []reflect.Method) {
	for _, m := range ms {
		if m.Name == "SetReadOnly" {
			sw.call("ronly-seq", rm, h, m, argSet{"(false)", []reflect.Value{reflect.ValueOf(false)}}, false, false)
		}
	}
	ev := SweepEvent{Ev: "call", Mode: "probe", Recv: rm.name, Typ: rm.typ, Method: "ProbeMutable", NonZero: []string{},
		ErrRes: "false", Again: "n/a", PreLive: "true", PostLive: "true", PreRO: "false", PostRO: "false"}
	ev.Health = func() (hh string) {
		defer func() {
			if r := recover(); r != nil {
				hh = "PANIC: " + fmt.Sprint(r)
			}
		}()
		switch tv := h.Elem().Interface().(type) {
		case stackage.Stack:
			if !tv.IsInit() {
				return "ok" // freed during the sequence after the flag was cleared
			}
			if tv.SetCategory("probe-cat"); tv.Category() != "probe-cat" {
				return "SetCategory has no effect after clearing the read-only flag"
			}
		case stackage.Condition:
			if !tv.IsInit() {
				return "ok"
			}
			if tv.SetCategory("probe-cat"); tv.Category() != "probe-cat" {
				return "SetCategory has no effect after clearing the read-only flag"
			}
		}
		return "ok"
	}()
	_ = sw.enc.Encode(ev)
	sw.events++
}

// asArgument hands a fresh read-only instance (native, alias and pointer
// forms) to every any-taking method of writable helper instances and records
// whether the read-only instance changed.
func (sw *sweeper) asArgument(rm recvMaker) {
	helpers := []recvMaker{
		{"helper-AND", "Stack", func() any { return stackage.And().Push("h1", "h2") }},
		{"helper-LIST-cap", "Stack", func() any { return stackage.List(3).Push("h1") }},
		{"helper-cond", "Condition", func() any { return stackage.Cond("hk", stackage.Eq, "hv") }},
	}
	forms := func(x any) []named {
		switch tv := x.(type) {
		case stackage.Stack:
			a := AStack(tv)
			return []named{{"native", tv}, {"alias", a}, {"ptr", &a}}
		case stackage.Condition:
			a := ACond(tv)
			return []named{{"native", tv}, {"alias", a}, {"ptr", &a}}
		}
		return nil
	}
	for _, hm := range helpers {
		for _, m := range methodsOf(hm.mk()) {
			mt := methodType(m)
			slot := -1
			for i := 0; i < mt.NumIn(); i++ {
				pt := mt.In(i)
				if pt == tAny || (mt.IsVariadic() && i == mt.NumIn()-1 && pt.Elem() == tAny) {
					slot = i
					break
				}
			}
			if slot < 0 {
				continue
			}
			for fi := 0; fi < 3; fi++ {
				ro := setRO(rm.mk())
				f := forms(ro)[fi]
				var vals []reflect.Value
				for i := 0; i < mt.NumIn(); i++ {
					pt := mt.In(i)
					switch {
					case i == slot:
						vals = append(vals, reflect.ValueOf(f.v))
					case mt.IsVariadic() && i == mt.NumIn()-1:
						// nothing for an unrelated variadic tail
					default:
						vals = append(vals, toValue(pt, variants(pt, plainAnys())[0].v))
					}
				}
				pre := Snap(ro)
				ev := SweepEvent{Ev: "call", Mode: "ronly-arg", Recv: rm.name, Typ: rm.typ,
					Method: "arg:" + hm.name + "." + m.Name, Args: f.name,
					PreLive: b2s(pre.Live), PreRO: b2s(pre.Ronly), PreErr: pre.Err, Pre: pre.Rest,
					NonZero: []string{}, ErrRes: "false", Again: "n/a", Health: "n/a"}
				func() {
					defer func() {
						if r := recover(); r != nil {
							ev.Panic = fmt.Sprint(r)
						}
					}()
					holderOf(hm.mk()).Method(m.Index).Call(vals)
				}()
				post := Snap(ro)
				ev.PostLive, ev.PostRO, ev.PostErr, ev.Post = b2s(post.Live), b2s(post.Ronly), post.Err, post.Rest
				_ = sw.enc.Encode(SweepEvent{Ev: "reset", Mode: "ronly-arg", Recv: rm.name, Typ: rm.typ, NonZero: []string{}})
				_ = sw.enc.Encode(ev)
				sw.events++
			}
		}
	}
}

// asNested puts a fresh read-only instance inside writable parents (direct element,
// grandchild, Condition expression) and calls every method of the parent.
func (sw *sweeper) asNested(rm recvMaker) {
	if rm.typ != "Stack" {
		return
	}
	parents := []struct {
		name string
		mk   func(child any) stackage.Stack
	}{
		{"parent-direct", func(c any) stackage.Stack { return stackage.And().Push(c, "x") }},
		{"parent-grand", func(c any) stackage.Stack { return stackage.Or().Push(stackage.And().Push("y", c), "x") }},
		{"parent-cond", func(c any) stackage.Stack {
			return stackage.And().Push(stackage.Cond("k", stackage.Eq, c), stackage.And().Push("s"))
		}},
	}
	for _, pm := range parents {
		probe := pm.mk(stackage.And())
		for _, m := range methodsOf(probe) {
			if m.Name == "Free" {
				continue
			}
			sets := argSets(methodType(m), plainAnys(), 6)
			for _, as := range sets {
				ro := setRO(rm.mk())
				// give recursing mutators something to do inside the read-only child
				if rs, ok := ro.(stackage.Stack); ok {
					rs.SetReadOnly(false)
					rs.Push(nil, "tail", stackage.And().Push(stackage.And().Push("w1", "w2")))
					rs.SetReadOnly(true)
					ro = rs
				}
				parent := pm.mk(ro)
				pre := Snap(ro)
				ev := SweepEvent{Ev: "call", Mode: "ronly-nested", Recv: rm.name, Typ: rm.typ,
					Method: "nested:" + pm.name + "." + m.Name, Args: as.desc,
					PreLive: b2s(pre.Live), PreRO: b2s(pre.Ronly), PreErr: pre.Err, Pre: pre.Rest,
					NonZero: []string{}, ErrRes: "false", Again: "n/a", Health: "n/a"}
				func() {
					defer func() {
						if r := recover(); r != nil {
							ev.Panic = fmt.Sprint(r)
						}
					}()
					holderOf(parent).Method(m.Index).Call(as.vals)
				}()
				post := Snap(ro)
				ev.PostLive, ev.PostRO, ev.PostErr, ev.Post = b2s(post.Live), b2s(post.Ronly), post.Err, post.Rest
				_ = sw.enc.Encode(SweepEvent{Ev: "reset", Mode: "ronly-nested", Recv: rm.name, Typ: rm.typ, NonZero: []string{}})
				_ = sw.enc.Encode(ev)
				sw.events++
			}
		}
	}
}

func methodsOf(x any) []reflect.Method {
	t := reflect.PtrTo(reflect.TypeOf(x)) // pointer method set includes value methods
	var out []reflect.Method
	for i := 0; i < t.NumMethod(); i++ {
		out = append(out, t.Method(i))
	}
	return out
}

func methodType(m reflect.Method) reflect.Type {
	// strip the receiver
	in := []reflect.Type{}
	for i := 1; i < m.Type.NumIn(); i++ {
		in = append(in, m.Type.In(i))
	}
	out := []reflect.Type{}
	for i := 0; i < m.Type.NumOut(); i++ {
		out = append(out, m.Type.Out(i))
	}
	return reflect.FuncOf(in, out, m.Type.IsVariadic())
}

var pkgUnmodelled = []string{}

func cmdSweep(args []string) {
	fs := flag.NewFlagSet("sweep", flag.ExitOnError)
	mode := fs.String("mode", "ronly", "ronly | dead | awkward | query")
	out := fs.String("out", "", "event ndjson")
	seed := fs.Int64("seed", 1, "seed")
	seqs := fs.Int("seqs", 200, "random call sequences per receiver (ronly mode)")
	limit := fs.Int("limit", 400, "argument tuples per method")
	_ = fs.Parse(args)
	log.SetOutput(os.Stderr)
	f, err := os.Create(*out)
	if err != nil {
		die(2, "%v", err)
	}
	defer f.Close()
	w := bufio.NewWriterSize(f, 1<<20)
	defer w.Flush()
	sw := &sweeper{enc: json.NewEncoder(w), methods: map[string]bool{}}
	rng := rand.New(rand.NewSource(*seed))
	reset := func(rm recvMaker) {
		_ = sw.enc.Encode(SweepEvent{Ev: "reset", Mode: *mode, Recv: rm.name, Typ: rm.typ, NonZero: []string{}})
	}

	switch *mode {
	case "ronly":
		makers := append(liveStackMakers(), liveCondMakers()...)
		for _, rm := range makers {
			ms := methodsOf(rm.mk())
			// single calls: fresh read-only receiver per call
			for _, m := range ms {
				for _, as := range argSets(methodType(m), plainAnys(), *limit) {
					reset(rm)
					h := holderOf(setRO(rm.mk()))
					sw.call("ronly", rm, h, m, as, false, false)
				}
			}
			// sequences on one read-only receiver, then clear the flag and probe
			for s := 0; s < *seqs; s++ {
				reset(rm)
				h := holderOf(setRO(rm.mk()))
				n := 2 + rng.Intn(3)
				for i := 0; i < n; i++ {
					m := ms[rng.Intn(len(ms))]
					sets := argSets(methodType(m), plainAnys(), *limit)
					if sw.call("ronly-seq", rm, h, m, sets[rng.Intn(len(sets))], false, false) {
						break
					}
				}
				sw.probeMutable(rm, h, ms)
			}
			// the read-only instance as an ARGUMENT of another instance's methods
			sw.asArgument(rm)
			// ... and as a nested ELEMENT of a writable parent whose methods recurse
			sw.asNested(rm)
		}
	case "dead":
		// package-level functions and the Auxiliary type
		pkgUnmodelled = sw.sweepPkgFuncs(*limit)
		// Free on live receivers (writable and read-only): the handle must become
		// zero exactly when the instance is not read-only
		for _, rm := range append(liveStackMakers(), liveCondMakers()...) {
			for _, ro := range []bool{false, true} {
				for _, m := range methodsOf(rm.mk()) {
					if m.Name != "Free" {
						continue
					}
					reset(rm)
					x := rm.mk()
					if ro {
						x = setRO(x)
					}
					sw.call("free", rm, holderOf(x), m, argSet{}, true, false)
				}
			}
		}
		// the Init()-only Condition: initialised but empty
		for _, rm := range liveCondMakers() {
			if rm.name != "cond-initonly" {
				continue
			}
			for _, m := range methodsOf(rm.mk()) {
				for _, as := range argSets(methodType(m), anysFor("initonly"), *limit) {
					reset(rm)
					sw.call("initonly", rm, holderOf(rm.mk()), m, as, true, false)
				}
			}
		}
		for _, rm := range deadMakers() {
			for _, m := range methodsOf(rm.mk()) {
				for _, as := range argSets(methodType(m), append(plainAnys(), awkwardCatalogue()[:12]...), *limit) {
					reset(rm)
					sw.call("dead", rm, holderOf(rm.mk()), m, as, true, false)
				}
			}
		}
	case "awkward":
		makers := append(liveStackMakers(), liveCondMakers()...)
		for _, rm := range makers {
			for _, m := range methodsOf(rm.mk()) {
				mt := methodType(m)
				hasAny := false
				for i := 0; i < mt.NumIn(); i++ {
					pt := mt.In(i)
					if pt == tAny || pt == tOperator || (pt.Kind() == reflect.Slice && pt.Elem() == tAny) {
						hasAny = true
					}
				}
				// on the receiver with both index options on, the methods WITHOUT parameters are called too: their internal
				// scans use the same index translation as the int-taking methods (Free releases the receiver and is left out)
				noArg := mt.NumIn() == 0 && strings.Contains(rm.name, "idxopts") && m.Name != "Free"
				if !hasAny && !noArg {
					continue
				}
				for _, as := range argSets(mt, awkwardCatalogue(), *limit) {
					reset(rm)
					sw.call("awkward", rm, holderOf(rm.mk()), m, as, true, false)
				}
			}
		}
		isEq := func(x any) (reflect.Method, bool) {
			for _, m := range methodsOf(x) {
				if m.Name == "IsEqual" {
					return m, true
				}
			}
			return reflect.Method{}, false
		}
		for _, prm := range pairMakers() {
			if m, ok := isEq(prm.mk()); ok {
				if a, ok2 := pairArg(prm.name); ok2 {
					reset(prm)
					sw.call("awkward", prm, holderOf(prm.mk()), m, a, true, false)
				}
			}
		}
	case "query":
		makers := append(liveStackMakers(), liveCondMakers()...)
		for _, rm := range makers {
			for _, ro := range []bool{false, true} {
				for _, m := range methodsOf(rm.mk()) {
					for _, as := range argSets(methodType(m), plainAnys(), 40) {
						reset(rm)
						x := rm.mk()
						if ro {
							x = setRO(x)
						}
						sw.call("query", rm, holderOf(x), m, as, false, true)
					}
				}
			}
		}
	default:
		die(2, "unknown sweep mode %s", *mode)
	}
	var ms []string
	for m := range sw.methods {
		ms = append(ms, m)
	}
	sort.Strings(ms)
	j, _ := json.Marshal(map[string]any{"events": sw.events, "methods": ms, "unmodelled_functions": pkgUnmodelled})
	fmt.Println(string(j))
}

func init() { commands["sweep"] = cmdSweep }

// ---- replay of recorded sweep events ----------------------------------------

type SweepReplay struct {
	Property string       `json:"property"`
	Kind     string       `json:"kind"` // "sweep"
	Events   []SweepEvent `json:"events"`
	Rules    []string     `json:"rules"`
	Class    string       `json:"class"`
	Detail   []string     `json:"detail"`
}

func facts(e SweepEvent) string {
	return fmt.Sprintf("panic=%v same=%v live=%s->%s ro=%s->%s errsame=%v nonzero=%v errres=%s again=%s health=%s",
		e.Panic != "", e.Pre == e.Post, e.PreLive, e.PostLive, e.PreRO, e.PostRO, e.PreErr == e.PostErr,
		e.NonZero, e.ErrRes, e.Again, e.Health)
}

func anysFor(mode string) []named {
	switch mode {
	case "dead":
		return append(plainAnys(), awkwardCatalogue()[:12]...)
	case "initonly":
		return append(plainAnys(), awkwardCatalogue()...)
	case "awkward":
		return awkwardCatalogue()
	}
	return plainAnys()
}

// RunSweepReplay re-executes the recorded events on a fresh receiver and
// reports whether the last event shows the same facts again.
func RunSweepReplay(r *SweepReplay) (bool, string) {
	if len(r.Events) == 0 {
		return false, "no events"
	}
	first := r.Events[0]
	if first.Mode == "ronly-arg" || first.Mode == "ronly-nested" {
		return replayAsArgument(first)
	}
	if first.Mode == "pkg" {
		return replayPkg(r.Events[len(r.Events)-1])
	}
	var rm *recvMaker
	all := append(append(liveStackMakers(), liveCondMakers()...), deadMakers()...)
	all = append(all, pairMakers()...)
	for i := range all {
		if all[i].name == first.Recv {
			rm = &all[i]
		}
	}
	if rm == nil {
		return false, "unknown receiver " + first.Recv
	}
	x := rm.mk()
	if first.PreRO == "true" {
		x = setRO(x)
	}
	h := holderOf(x)
	f, _ := os.CreateTemp("", "sweepreplay")
	defer os.Remove(f.Name())
	defer f.Close()
	sw := &sweeper{enc: json.NewEncoder(f), methods: map[string]bool{}}
	var got SweepEvent
	for _, ev := range r.Events {
		if ev.Method == "ProbeMutable" {
			continue
		}
		var m *reflect.Method
		for _, mm := range methodsOf(rm.mk()) {
			if mm.Name == ev.Method {
				mm := mm
				m = &mm
			}
		}
		if m == nil {
			return false, "unknown method " + ev.Method
		}
		limit := 400
		if ev.Mode == "query" {
			limit = 40
		}
		var as *argSet
		if a, ok := pairArg(first.Recv); ok && ev.Method == "IsEqual" {
			as = &a
		}
		for _, a := range argSets(methodType(*m), anysFor(ev.Mode), limit) {
			if as != nil {
				break
			}
			if a.desc == ev.Args {
				a := a
				as = &a
				break
			}
		}
		if as == nil {
			return false, "unknown argument tuple " + ev.Args
		}
		pre := Snap(h.Elem().Interface())
		preText := LastSnapText
		sw.call(ev.Mode, *rm, h, *m, *as, ev.Mode == "dead" || ev.Mode == "awkward" || ev.Mode == "free" || ev.Mode == "initonly", ev.Mode == "query")
		_ = pre
		_ = Snap(h.Elem().Interface())
		postText := LastSnapText
		if preText != postText {
			lastDiff = fmt.Sprintf("before: %s\nafter:  %s", preText, postText)
		} else {
			lastDiff = ""
		}
	}
	// read back the last recorded event
	f.Seek(0, 0)
	sc := bufio.NewScanner(f)
	sc.Buffer(make([]byte, 1<<20), 1<<26)
	for sc.Scan() {
		_ = json.Unmarshal(sc.Bytes(), &got)
	}
	want := r.Events[len(r.Events)-1]
	if want.Method == "ProbeMutable" {
		return true, "probe events are not re-executed separately"
	}
	if facts(got) == facts(want) {
		return true, facts(got) + "\n" + lastDiff
	}
	return false, "recorded: " + facts(want) + "\nobserved: " + facts(got)
}

var lastDiff string

func replayAsArgument(want SweepEvent) (bool, string) {
	f, _ := os.CreateTemp("", "sweepreplay")
	defer os.Remove(f.Name())
	defer f.Close()
	sw := &sweeper{enc: json.NewEncoder(f), methods: map[string]bool{}}
	all := append(liveStackMakers(), liveCondMakers()...)
	for i := range all {
		if all[i].name == want.Recv {
			if want.Mode == "ronly-nested" {
				sw.asNested(all[i])
			} else {
				sw.asArgument(all[i])
			}
		}
	}
	f.Seek(0, 0)
	sc := bufio.NewScanner(f)
	sc.Buffer(make([]byte, 1<<20), 1<<26)
	for sc.Scan() {
		var got SweepEvent
		_ = json.Unmarshal(sc.Bytes(), &got)
		if got.Ev == "call" && got.Method == want.Method && got.Args == want.Args {
			if facts(got) == facts(want) {
				return true, facts(got)
			}
			return false, "recorded: " + facts(want) + "\nobserved: " + facts(got)
		}
	}
	return false, "event not found on re-execution"
}

func scribble(x any, depth int) {
	if l, ok := x.([]any); ok && depth < 6 {
		for i := range l {
			if inner, ok := l[i].([]any); ok {
				scribble(inner, depth+1)
			}
			l[i] = "<<scribbled>>"
		}
	}
}

func replayPkg(want SweepEvent) (bool, string) {
	f, _ := os.CreateTemp("", "sweepreplay")
	defer os.Remove(f.Name())
	defer f.Close()
	sw := &sweeper{enc: json.NewEncoder(f), methods: map[string]bool{}}
	sw.sweepPkgFuncs(400)
	f.Seek(0, 0)
	sc := bufio.NewScanner(f)
	sc.Buffer(make([]byte, 1<<20), 1<<26)
	for sc.Scan() {
		var got SweepEvent
		_ = json.Unmarshal(sc.Bytes(), &got)
		if got.Ev == "call" && got.Recv == want.Recv && got.Method == want.Method && got.Args == want.Args {
			if facts(got) == facts(want) {
				return true, facts(got) + " " + got.Panic
			}
			return false, "recorded: " + facts(want) + "\nobserved: " + facts(got)
		}
	}
	return false, "event not found on re-execution"
}
