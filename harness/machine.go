package main

// machine.go: the replay / trace machinery is generic over the abstract
// state machine it drives.  A Machine turns an abstract state (JSON) into
// real objects, performs a call on them and reads the observables back.

import (
	"encoding/json"
	"strings"
)

type Handle interface{}

type Machine interface {
	Name() string
	// Build constructs real objects for the abstract state(s) through the public API.
	Build(st, dst json.RawMessage) Handle
	// Apply performs one call ("on" = st | dst) and returns the projected return values.
	Apply(h Handle, on string, c Call) []string
	// Observe returns the observables of the first and (if any) second handle.
	Observe(h Handle) (any, any)
	// LockLeft reports a lock left held after a call returned ("" if none).
	LockLeft(h Handle) string
}

var machines = map[string]Machine{}

// canonJSON re-marshals through map[string]any so that object keys are sorted.
func canonJSON(raw json.RawMessage) string {
	if len(raw) == 0 || string(raw) == "null" {
		return ""
	}
	var v any
	if err := json.Unmarshal(raw, &v); err != nil {
		return string(raw)
	}
	j, _ := json.Marshal(v)
	return string(j)
}

// applyDelta overlays the changed fields (a JSON object, or [] for none).
func applyDelta(st json.RawMessage, d json.RawMessage) (json.RawMessage, error) {
	t := strings.TrimSpace(string(d))
	if len(st) == 0 || t == "" || t == "[]" || t == "null" {
		return st, nil
	}
	var m map[string]json.RawMessage
	if err := json.Unmarshal(st, &m); err != nil {
		return st, err
	}
	var dm map[string]json.RawMessage
	if err := json.Unmarshal(d, &dm); err != nil {
		return st, err
	}
	for k, v := range dm {
		m[k] = v
	}
	j, err := json.Marshal(m)
	return j, err
}

// ---- the Stack machine (spec/ListOps.tla) ------------------------------------

type stackMachine struct{}

type stackHandle struct{ o, d *Obj }

func (stackMachine) Name() string { return "stack" }
func (stackMachine) Build(st, dst json.RawMessage) Handle {
	var a AState
	_ = json.Unmarshal(st, &a)
	h := &stackHandle{o: Build(a), d: &Obj{}}
	if len(dst) > 0 && string(dst) != "null" {
		var b AState
		_ = json.Unmarshal(dst, &b)
		h.d = Build(b)
	}
	return h
}
func (stackMachine) Apply(h Handle, on string, c Call) []string {
	sh := h.(*stackHandle)
	if on == "dst" {
		return Apply(sh.d, sh.o, c)
	}
	return Apply(sh.o, sh.d, c)
}
func (stackMachine) Observe(h Handle) (any, any) {
	sh := h.(*stackHandle)
	return toGeneric(Observe(sh.o.S)), toGeneric(Observe(sh.d.S))
}
func (stackMachine) LockLeft(h Handle) string {
	sh := h.(*stackHandle)
	return lockLeft(sh.o, sh.d)
}

func init() { machines["stack"] = stackMachine{} }
