package main

// evals.go: evaluators of the pure-function families (the real method is
// called on a tree built through the public API; the result is projected
// into the vocabulary of the corresponding spec module).

import (
	"fmt"
	"reflect"
	"strconv"
	"strings"

	stackage "github.com/JesseCoretta/go-stackage"
)

// ---- identity registry (Traverse returns values; the spec returns addresses) ----

type registry struct {
	stacks map[string]string // Addr() -> structural address
	conds  map[string]string
}

func addrStr(a []int) string {
	parts := make([]string, len(a))
	for i, x := range a {
		parts[i] = strconv.Itoa(x)
	}
	return strings.Join(parts, ".")
}

// buildIndexed builds the tree giving every leaf a unique text (its address)
// and registering every nested Stack / Condition by pointer identity.
func buildIndexed(n Node, addr []int, reg *registry) any {
	switch nStr(n, "t") {
	case "nil":
		return nil
	case "leaf":
		return "leaf:" + addrStr(addr)
	case "stk":
		m := Node{}
		for k, v := range n {
			m[k] = v
		}
		m["e"] = []any{}
		s := BuildStack(m)
		for i, k := range nKids(n, "e") {
			s.Push(buildIndexed(k, append(append([]int{}, addr...), i+1), reg))
		}
		reg.stacks[s.Addr()] = addrStr(addr)
		switch nStr(n, "form") {
		case "alias":
			return AStack(s)
		case "walias":
			return WStack(s)
		case "ptr":
			a := AStack(s)
			return &a
		}
		return s
	case "cnd":
		m := Node{}
		for k, v := range n {
			m[k] = v
		}
		m["ex"] = Node{"t": "nil"}
		c := BuildCond(m)
		if ex, ok := n["ex"].(map[string]any); ok && nStr(ex, "t") != "nil" {
			c.SetExpression(buildIndexed(ex, append(append([]int{}, addr...), 0), reg))
		}
		reg.conds[c.Addr()] = addrStr(addr)
		switch nStr(n, "form") {
		case "alias":
			return ACond(c)
		case "walias":
			return WCond(c)
		case "ptr":
			a := ACond(c)
			return &a
		}
		return c
	}
	return nil
}

func (reg *registry) project(v any) string {
	if v == nil {
		return "<nil>"
	}
	if s, ok := v.(string); ok && strings.HasPrefix(s, "leaf:") {
		return strings.TrimPrefix(s, "leaf:")
	}
	if s, ok := stackage.ConvertStack(v); ok {
		if a, ok := reg.stacks[s.Addr()]; ok {
			return a
		}
		return "<unknown stack>"
	}
	if c, ok := stackage.ConvertCondition(v); ok {
		if a, ok := reg.conds[c.Addr()]; ok {
			return a
		}
		return "<unknown condition>"
	}
	return fmt.Sprintf("<%T>", v)
}

func parseAddr(s string) []int {
	out := []int{}
	if s == "" {
		return out
	}
	for _, p := range strings.Split(s, ".") {
		i, err := strconv.Atoi(p)
		if err != nil {
			return []int{-999}
		}
		out = append(out, i)
	}
	return out
}

func intsOf(x any) []int {
	var out []int
	if l, ok := x.([]any); ok {
		for _, e := range l {
			switch tv := e.(type) {
			case float64:
				out = append(out, mapInt(int(tv)))
			case int:
				out = append(out, mapInt(tv))
			}
		}
	}
	return out
}

func init() {
	evaluators["traverse"] = func(in Node, arg any) any {
		reg := &registry{stacks: map[string]string{}, conds: map[string]string{}}
		root, _ := stackage.ConvertStack(buildIndexed(in, []int{}, reg))
		paths, _ := arg.([]any)
		out := []any{}
		for _, p := range paths {
			var res map[string]any
			func() {
				defer func() {
					if r := recover(); r != nil {
						res = map[string]any{"ok": "PANIC: " + fmt.Sprint(r), "addr": []int{}}
					}
				}()
				v, ok := root.Traverse(intsOf(p)...)
				res = map[string]any{"ok": ok, "addr": []int{}}
				if ok {
					a := reg.project(v)
					if strings.HasPrefix(a, "<") {
						res["addr"] = []any{a}
					} else {
						res["addr"] = parseAddr(a)
					}
				} else if v != nil && !reflect.ValueOf(v).IsZero() {
					res["addr"] = []any{"non-nil value with ok=false"}
				}
			}()
			out = append(out, res)
		}
		return out
	}
	treeGenerators["traverse"] = func(g *treeGen) (Node, any) {
		g.nils = true
		s := g.travStack(0)
		paths := []any{}
		for i := 0; i < 40; i++ {
			n := g.rng.Intn(g.maxDepth + 3)
			p := []any{}
			for j := 0; j < n; j++ {
				p = append(p, g.rng.Intn(7)-2)
			}
			paths = append(paths, p)
		}
		return s, paths
	}
}

// travStack: like stack() but biased towards nesting and with index options
func (g *treeGen) travStack(depth int) Node {
	n := Node{"t": "stk", "k": []string{"AND", "OR", "NOT", "LIST", "BASIC"}[g.rng.Intn(5)], "form": "native", "paren": false, "fold": false,
		"nspad": false, "lonce": false, "sym": []any{}, "delim": []any{}, "enc": []any{}, "neg": g.rng.Intn(2) == 0, "fwd": g.rng.Intn(2) == 0,
		"mtx": false, "cap": 0}
	w := g.rng.Intn(5)
	kids := []any{}
	for i := 0; i < w; i++ {
		r := g.rng.Intn(10)
		switch {
		case r < 3 || depth >= g.maxDepth:
			if g.rng.Intn(4) == 0 {
				kids = append(kids, Node{"t": "nil"})
			} else {
				kids = append(kids, Node{"t": "leaf", "ty": "str", "v": []any{"l"}})
			}
		case r < 7:
			s := g.travStack(depth + 1)
			s["form"] = g.form()
			kids = append(kids, s)
		default:
			c := Node{"t": "cnd", "form": g.form(), "kw": []any{"k"}, "op": "Eq", "paren": false, "nspad": false, "enc": []any{}}
			switch g.rng.Intn(3) {
			case 0:
				c["ex"] = Node{"t": "leaf", "ty": "str", "v": []any{"v"}}
			case 1:
				s := g.travStack(depth + 1)
				s["form"] = g.form()
				c["ex"] = s
			default:
				c["ex"] = Node{"t": "cnd", "form": "native", "kw": []any{"j"}, "op": "Ne", "paren": false, "nspad": false, "enc": []any{},
					"ex": g.travStack(depth + 1)}
			}
			kids = append(kids, c)
		}
	}
	n["e"] = kids
	return n
}
