package main

// evals.go: evaluators of the pure-function families (the real method is
// called on a tree built through the public API; the result is projected
// into the vocabulary of the corresponding spec module).

import (
	"fmt"
	"reflect"
	"strconv"
	"strings"
	"time"

	stackage "github.com/JesseCoretta/go-stackage"
)

// ---- identity registry (Traverse returns values; the spec returns addresses) ----

type registry struct {
	stacks map[string]string // Addr() -> structural address
	conds  map[string]string
	types  map[string]string // structural address -> Go type of the value as STORED (native, alias, pointer to alias ...)
}

func (reg *registry) stored(addr []int, v any) any {
	if reg.types == nil {
		reg.types = map[string]string{}
	}
	reg.types[addrStr(addr)] = fmt.Sprintf("%T", v)
	return v
}

func addrStr(a []int) string {
	parts := make([]string, len(a))
	for i, x := range a {
		parts[i] = strconv.Itoa(x)
	}
	return strings.Join(parts, ".")
}

// buildIndexed builds the tree giving every leaf a unique text (its address)
// and registering every nested Stack / Condition by pointer identity.
func buildIndexed(n Node, addr []int, reg *registry) any {
	switch nStr(n, "t") {
	case "nil":
		return nil
	case "leaf":
		return "leaf:" + addrStr(addr)
	case "stk":
		m := Node{}
		for k, v := range n {
			m[k] = v
		}
		m["e"] = []any{}
		m["nn"] = false // applied below, after the elements went in
		m["er"] = false
		s := BuildStack(m)
		for i, k := range nKids(n, "e") {
			s.Push(buildIndexed(k, append(append([]int{}, addr...), i+1), reg))
		}
		reg.stacks[s.Addr()] = addrStr(addr)
		if nBool(n, "nn") {
			s.SetNoNesting(true) // switched on AFTER the elements went in: it concerns future pushes only, never what is reachable
		}
		if nBool(n, "er") {
			s.SetErr(errUser)
		}
		switch nStr(n, "form") {
		case "alias":
			return reg.stored(addr, AStack(s))
		case "walias":
			return reg.stored(addr, WStack(s))
		case "xalias":
			return reg.stored(addr, XStack(s))
		case "ptr":
			a := AStack(s)
			return reg.stored(addr, &a)
		}
		return reg.stored(addr, s)
	case "cnd":
		m := Node{}
		for k, v := range n {
			m[k] = v
		}
		m["ex"] = Node{"t": "nil"}
		c := BuildCond(m)
		if ex, ok := n["ex"].(map[string]any); ok && nStr(ex, "t") != "nil" {
			c.SetExpression(buildIndexed(ex, append(append([]int{}, addr...), 0), reg))
		}
		reg.conds[c.Addr()] = addrStr(addr)
		switch nStr(n, "form") {
		case "alias":
			return reg.stored(addr, ACond(c))
		case "walias":
			return reg.stored(addr, WCond(c))
		case "xalias":
			return reg.stored(addr, XCond(c))
		case "ptr":
			a := ACond(c)
			return reg.stored(addr, &a)
		}
		return reg.stored(addr, c)
	}
	return nil
}

func (reg *registry) project(v any) string {
	if v == nil {
		return "<nil>"
	}
	if s, ok := v.(string); ok && strings.HasPrefix(s, "leaf:") {
		return strings.TrimPrefix(s, "leaf:")
	}
	if s, ok := stackage.ConvertStack(v); ok {
		if a, ok := reg.stacks[s.Addr()]; ok {
			return a
		}
		return "<unknown stack>"
	}
	if c, ok := stackage.ConvertCondition(v); ok {
		if a, ok := reg.conds[c.Addr()]; ok {
			return a
		}
		return "<unknown condition>"
	}
	return fmt.Sprintf("<%T>", v)
}

func parseAddr(s string) []int {
	out := []int{}
	if s == "" {
		return out
	}
	for _, p := range strings.Split(s, ".") {
		i, err := strconv.Atoi(p)
		if err != nil {
			return []int{-999}
		}
		out = append(out, i)
	}
	return out
}

func intsOf(x any) []int {
	var out []int
	if l, ok := x.([]any); ok {
		for _, e := range l {
			switch tv := e.(type) {
			case float64:
				out = append(out, mapInt(int(tv)))
			case int:
				out = append(out, mapInt(tv))
			}
		}
	}
	return out
}

func init() {
	evaluators["traverse"] = func(in Node, arg any) any {
		reg := &registry{stacks: map[string]string{}, conds: map[string]string{}}
		root, _ := stackage.ConvertStack(buildIndexed(in, []int{}, reg))
		paths, _ := arg.([]any)
		out := []any{}
		for _, p := range paths {
			var res map[string]any
			func() {
				defer func() {
					if r := recover(); r != nil {
						res = map[string]any{"ok": false, "addr": []int{}, "note": "PANIC: " + fmt.Sprint(r)}
					}
				}()
				path := append(make([]int, 0, len(intsOf(p))+2), intsOf(p)...) // the caller's own slice, with spare capacity
				given := append([]int{}, path...)
				v, ok := root.Traverse(path...)
				res = map[string]any{"ok": ok, "addr": []int{}, "note": ""}
				if !reflect.DeepEqual(path, given) {
					res["note"] = fmt.Sprintf("the caller's path slice was rewritten: %v -> %v", given, path)
					out = append(out, res)
					return
				}
				if ok {
					a := reg.project(v)
					if strings.HasPrefix(a, "<") {
						res["note"] = a
					} else if want, ok := reg.types[a]; ok && want != fmt.Sprintf("%T", v) {
						// Traverse hands out the element as STORED (what Index gives), not a converted copy of it
						res["addr"] = parseAddr(a)
						res["note"] = fmt.Sprintf("value at %s has type %T, stored as %s", a, v, want)
					} else {
						res["addr"] = parseAddr(a)
					}
				} else if v != nil && !reflect.ValueOf(v).IsZero() {
					res["note"] = "non-nil value with ok=false"
				}
			}()
			out = append(out, res)
		}
		return out
	}
	treeGenerators["traverse"] = func(g *treeGen) (Node, any) {
		g.nils = true
		s := g.travStack(0)
		paths := []any{}
		for i := 0; i < 40; i++ {
			n := g.rng.Intn(g.maxDepth + 3)
			p := []any{}
			for j := 0; j < n; j++ {
				p = append(p, g.rng.Intn(7)-2)
			}
			paths = append(paths, p)
		}
		return s, paths
	}
}

// travStack: like stack() but biased towards nesting and with index options
func (g *treeGen) travStack(depth int) Node {
	n := Node{"t": "stk", "k": []string{"AND", "OR", "NOT", "LIST", "BASIC"}[g.rng.Intn(5)], "form": "native", "paren": false, "fold": false,
		"nspad": false, "lonce": false, "sym": []any{}, "delim": []any{}, "enc": []any{}, "neg": g.rng.Intn(2) == 0, "fwd": g.rng.Intn(2) == 0,
		"mtx": false, "cap": 0, "nn": g.rng.Intn(3) == 0, "er": g.rng.Intn(4) == 0}
	w := g.rng.Intn(5)
	kids := []any{}
	for i := 0; i < w; i++ {
		r := g.rng.Intn(10)
		switch {
		case r < 3 || depth >= g.maxDepth:
			if g.rng.Intn(4) == 0 {
				kids = append(kids, Node{"t": "nil"})
			} else {
				kids = append(kids, Node{"t": "leaf", "ty": "str", "v": []any{"l"}})
			}
		case r < 7:
			s := g.travStack(depth + 1)
			s["form"] = g.form()
			kids = append(kids, s)
		default:
			c := Node{"t": "cnd", "form": g.form(), "kw": []any{"k"}, "op": "Eq", "paren": false, "nspad": false, "enc": []any{}}
			if g.rng.Intn(4) == 0 {
				c["kw"] = []any{} // not valid by the built-in standard: Traverse does not care
			}
			switch g.rng.Intn(3) {
			case 0:
				c["ex"] = Node{"t": "leaf", "ty": "str", "v": []any{"v"}}
			case 1:
				s := g.travStack(depth + 1)
				s["form"] = g.form()
				c["ex"] = s
			default:
				c["ex"] = Node{"t": "cnd", "form": "native", "kw": []any{"j"}, "op": "Ne", "paren": false, "nspad": false, "enc": []any{},
					"ex": g.travStack(depth + 1)}
			}
			kids = append(kids, c)
		}
	}
	n["e"] = kids
	return n
}

// ---- structural projection of real values (Shape of spec/Trees.tla) ----------

func opID(op stackage.Operator) string {
	if op == nil {
		return "none"
	}
	if _, ok := op.(sliceOp); ok {
		return "uslice"
	}
	if co, ok := op.(stackage.ComparisonOperator); ok && (co < stackage.Eq || co > stackage.Ge) {
		if co == 0 {
			return "op0"
		}
		return "op9" // a built-in operator value outside Eq..Ge
	}
	switch op.String() {
	case "=":
		return "Eq"
	case "!=":
		return "Ne"
	case "<":
		return "Lt"
	case ">":
		return "Gt"
	case "<=":
		return "Le"
	case ">=":
		return "Ge"
	case "~=":
		return "user"
	}
	return "op:" + op.String()
}

func leafTokens(x any) []string {
	switch tv := x.(type) {
	case string:
		return Tokenize(tv)
	case int:
		return Tokenize(strconv.Itoa(tv))
	case bool:
		return Tokenize(strconv.FormatBool(tv))
	case float64:
		return Tokenize(strconv.FormatFloat(tv, 'g', -1, 64))
	case float32:
		return Tokenize(strconv.FormatFloat(float64(tv), 'g', -1, 32))
	case *int:
		if tv == nil {
			return []string{"~"}
		}
	}
	return []string{fmt.Sprintf("?%T", x)}
}

// ProjectShape maps a real value back to the Shape record of the spec.
func ProjectShape(x any) Node {
	if x == nil {
		return Node{"t": "nil"}
	}
	if s, ok := stackage.ConvertStack(x); ok {
		d := stackage.VerifDump(s)
		kids := []any{}
		if sl, ok := d["slots"].([]any); ok {
			for _, e := range sl {
				kids = append(kids, ProjectShape(e))
			}
		}
		k := strings.ToUpper(fmt.Sprint(func() string {
			cfg, _ := d["cfg"].(map[string]any)
			switch cfg["typ"] {
			case 1:
				return "AND"
			case 2:
				return "OR"
			case 3:
				return "NOT"
			case 4:
				return "LIST"
			case 6:
				return "BASIC"
			}
			return "?"
		}()))
		return Node{"t": "stk", "k": k, "paren": s.IsParen(), "e": kids}
	}
	if c, ok := stackage.ConvertCondition(x); ok {
		return Node{"t": "cnd", "kw": Tokenize(c.Keyword()), "op": opID(c.Operator()), "paren": c.IsParen(), "ex": ProjectShape(c.Expression())}
	}
	return Node{"t": "leaf", "v": leafTokens(x)}
}

func argInt(arg any) int {
	switch tv := arg.(type) {
	case float64:
		return int(tv)
	case int:
		return tv
	}
	return 0
}

func init() {
	evaluators["defrag"] = func(in Node, arg any) any {
		root, _ := stackage.ConvertStack(BuildNode(in))
		m := argInt(arg)
		if m >= 1000 { // an error recorded on the root before the call
			m -= 1000
			root.SetErr(errUser)
		}
		if m <= 0 {
			root.Defrag()
		} else {
			root.Defrag(m)
		}
		err := "none"
		if root.Err() != nil {
			err = "set"
		}
		return map[string]any{"shape": ProjectShape(root), "err": err}
	}
	treeGenerators["defrag"] = func(g *treeGen) (Node, any) {
		lim := []int{0, 0, 1, 2, 3, 5, 8}[g.rng.Intn(7)]
		pat := func() Node {
			n := g.rng.Intn(20)
			es := []any{}
			run := 0
			for i := 0; i < n; i++ {
				maxrun := 50
				if lim > 0 {
					maxrun = lim
				}
				if g.rng.Intn(3) == 0 && run+1 < maxrun {
					es = append(es, Node{"t": "nil"})
					run++
				} else if g.rng.Intn(12) == 0 {
					es = append(es, Node{"t": "leaf", "ty": "tnil", "v": []any{"~"}})
					run = 0
				} else {
					es = append(es, Node{"t": "leaf", "ty": "str", "v": []any{"e", fmt.Sprint(i % 10)}})
					run = 0
				}
			}
			return Node{"t": "stk", "k": []string{"AND", "OR", "LIST", "BASIC"}[g.rng.Intn(4)], "form": g.form(), "paren": false, "fold": false,
				"nspad": false, "lonce": false, "sym": []any{}, "delim": []any{}, "enc": []any{}, "neg": g.rng.Intn(2) == 0, "fwd": g.rng.Intn(3) == 0,
				"mtx": false, "cap": 0, "e": es}
		}
		root := pat()
		root["form"] = "native"
		kids := root["e"].([]any)
		// sprinkle nested pattern stacks and conditions holding them
		for i := range kids {
			if k, _ := kids[i].(Node); k != nil && k["t"] == "leaf" && g.rng.Intn(6) == 0 {
				sub := pat()
				// a second level below it, again directly or through a Condition
				sk := sub["e"].([]any)
				for j := range sk {
					if k2, _ := sk[j].(Node); k2 != nil && k2["t"] == "leaf" && g.rng.Intn(5) == 0 {
						if g.rng.Intn(2) == 0 {
							sk[j] = pat()
						} else {
							sk[j] = Node{"t": "cnd", "form": g.form(), "kw": []any{"k"}, "op": "Eq", "ex": pat(), "paren": false, "nspad": false, "enc": []any{}}
						}
					}
				}
				if g.rng.Intn(2) == 0 {
					kids[i] = sub
				} else {
					kids[i] = Node{"t": "cnd", "form": g.form(), "kw": []any{"k"}, "op": "Eq", "ex": sub, "paren": false, "nspad": false, "enc": []any{}}
				}
			}
		}
		if g.rng.Intn(4) == 0 {
			return root, lim + 1000 // with an error recorded on the root beforehand
		}
		return root, lim
	}
}

// ---- Reveal ---------------------------------------------------------------------

func init() {
	evaluators["reveal"] = func(in Node, _ any) any {
		root, _ := stackage.ConvertStack(BuildNode(in))
		done := make(chan any, 1)
		go func() {
			defer func() {
				if r := recover(); r != nil {
					done <- map[string]any{"PANIC": fmt.Sprint(r)}
				}
			}()
			root.Reveal()
			first := ProjectShape(root)
			// no lock may be left behind, anywhere in the tree: a second Reveal (whose result is again a legal rewrite of the
			// original) and a mutator on every mutex-enabled node must return too
			if held := locksHeld(root); held != "" {
				done <- map[string]any{"LOCKLEFT": held}
				return
			}
			root.Reveal()
			_ = first
			done <- nil
		}()
		select {
		case r := <-done:
			if r != nil {
				return r
			}
		case <-timeAfter(2):
			return map[string]any{"DEADLOCK": "Reveal (or a second Reveal right after it) did not return within 2s"}
		}
		return ProjectShape(root)
	}
	treeGenerators["reveal"] = func(g *treeGen) (Node, any) {
		return g.revStack(0), nil
	}
}

// locksHeld walks a structure and names the nodes whose mutex is still held (or whose lock stamp is still set)
func locksHeld(x any) string {
	out := []string{}
	var walk func(v any, path string)
	walk = func(v any, path string) {
		if s, ok := stackage.ConvertStack(v); ok {
			d := stackage.VerifDump(s)
			if cfg, _ := d["cfg"].(map[string]any); cfg["mtxlocked"] == true || cfg["ldr"] == true {
				out = append(out, path)
			}
			if sl, ok := d["slots"].([]any); ok {
				for i, e := range sl {
					walk(e, fmt.Sprintf("%s/%d", path, i))
				}
			}
		} else if c, ok := stackage.ConvertCondition(v); ok {
			walk(c.Expression(), path+"/ex")
		}
	}
	walk(x, "")
	return strings.Join(out, " ")
}

func (g *treeGen) revStack(depth int) Node {
	n := Node{"t": "stk", "k": []string{"AND", "OR", "NOT", "LIST", "AND", "OR", "BASIC"}[g.rng.Intn(7)], "form": "native", "paren": g.rng.Intn(4) == 0, "fold": false,
		"nspad": false, "lonce": false, "sym": []any{}, "delim": []any{}, "enc": []any{}, "neg": g.rng.Intn(4) == 0, "fwd": g.rng.Intn(3) == 0,
		"mtx": g.rng.Intn(3) == 0, "cap": 0}
	w := []int{0, 1, 1, 1, 2, 2, 3}[g.rng.Intn(7)]
	kids := []any{}
	for i := 0; i < w; i++ {
		r := g.rng.Intn(10)
		switch {
		case r < 3 || depth >= g.maxDepth:
			kids = append(kids, Node{"t": "leaf", "ty": "str", "v": []any{"l", fmt.Sprint(g.rng.Intn(10))}})
		case r < 8:
			s := g.revStack(depth + 1)
			s["form"] = g.form()
			kids = append(kids, s)
		default:
			c := Node{"t": "cnd", "form": g.form(), "kw": []any{"k"}, "op": []string{"Eq", "Ne", "user"}[g.rng.Intn(3)], "paren": g.rng.Intn(4) == 0, "nspad": false, "enc": []any{}}
			if g.rng.Intn(2) == 0 {
				c["ex"] = Node{"t": "leaf", "ty": "str", "v": []any{"v"}}
			} else {
				s := g.revStack(depth + 1)
				s["form"] = g.form()
				c["ex"] = s
			}
			kids = append(kids, c)
		}
	}
	n["e"] = kids
	return n
}

func timeAfter(sec int) <-chan time.Time { return time.After(time.Duration(sec) * time.Second) }

// ---- codec ------------------------------------------------------------------------

func goTypeLeaf(x any) Node { return Node{"t": "leaf", "ty": fmt.Sprintf("%T", x), "v": []string{}} }

// ProjectStruct maps a real value to the Struct record of spec/Codec.tla.
func ProjectStruct(x any) Node {
	if x == nil {
		return Node{"t": "nil"}
	}
	if rv := reflect.ValueOf(x); rv.Kind() == reflect.Ptr && rv.IsNil() {
		return goTypeLeaf(x) // typed nil pointer: never call methods on it
	}
	if s, ok := stackage.ConvertStack(x); ok {
		d := stackage.VerifDump(s)
		kids := []any{}
		if sl, ok := d["slots"].([]any); ok {
			for _, e := range sl {
				kids = append(kids, ProjectStruct(e))
			}
		}
		sh := ProjectShape(s)
		return Node{"t": "stk", "k": sh["k"], "e": kids}
	}
	if c, ok := stackage.ConvertCondition(x); ok {
		return Node{"t": "cnd", "kw": Tokenize(c.Keyword()), "op": opID(c.Operator()), "ex": ProjectStruct(c.Expression())}
	}
	switch tv := x.(type) {
	case string:
		return Node{"t": "leaf", "ty": "str", "v": Tokenize(tv)}
	case int:
		return Node{"t": "leaf", "ty": "int", "v": Tokenize(strconv.Itoa(tv))}
	case bool:
		return Node{"t": "leaf", "ty": "bool", "v": Tokenize(strconv.FormatBool(tv))}
	case float32:
		return Node{"t": "leaf", "ty": "f32", "v": Tokenize(strconv.FormatFloat(float64(tv), 'g', -1, 32))}
	case []any:
		return ProjectU(tv)
	}
	if op, ok := x.(stackage.Operator); ok {
		return Node{"t": "op", "id": opID(op)}
	}
	return goTypeLeaf(x)
}

// ProjectU maps the []any produced by Unmarshal to a U-value.
func ProjectU(x any) Node {
	switch tv := x.(type) {
	case []any:
		es := []any{}
		for _, e := range tv {
			es = append(es, ProjectU(e))
		}
		return Node{"t": "seq", "e": es}
	case nil:
		return Node{"t": "nil"}
	case string, int, bool:
		return ProjectStruct(tv)
	}
	if rv := reflect.ValueOf(x); rv.Kind() == reflect.Ptr && rv.IsNil() {
		return Node{"t": "obj", "o": goTypeLeaf(x)}
	}
	if op, ok := x.(stackage.Operator); ok {
		return Node{"t": "op", "id": opID(op)}
	}
	if _, ok := stackage.ConvertCondition(x); ok {
		return Node{"t": "obj", "o": ProjectStruct(x)}
	}
	if _, ok := stackage.ConvertStack(x); ok {
		return Node{"t": "obj", "o": ProjectStruct(x)}
	}
	return Node{"t": "obj", "o": goTypeLeaf(x)}
}

// structToTree turns a Struct record back into a buildable tree node (default options)
func structToTree(n Node) Node {
	switch nStr(n, "t") {
	case "stk":
		kids := []any{}
		for _, k := range nKids(n, "e") {
			kids = append(kids, structToTree(k))
		}
		return Node{"t": "stk", "k": nStr(n, "k"), "form": "native", "sym": []any{}, "delim": []any{}, "enc": []any{}, "e": kids}
	case "cnd":
		ex, _ := n["ex"].(map[string]any)
		return Node{"t": "cnd", "form": "native", "kw": n["kw"], "op": nStr(n, "op"), "ex": structToTree(ex), "enc": []any{}}
	}
	return n
}

// BuildU builds the Go value for a U-value (junk input of Marshal).
func BuildU(u Node) any {
	switch nStr(u, "t") {
	case "seq":
		out := []any{}
		for _, e := range nKids(u, "e") {
			out = append(out, BuildU(e))
		}
		return out
	case "nil":
		return nil
	case "leaf":
		return BuildNode(u)
	case "op":
		if nStr(u, "id") == "nilop" {
			var op stackage.Operator
			return op
		}
		return ConcOp(nStr(u, "id"))
	case "obj":
		o, _ := u["o"].(map[string]any)
		if nStr(o, "t") == "leaf" {
			switch nStr(o, "ty") {
			case "*int":
				var p *int
				return p
			case "*stackage.Stack":
				var p *stackage.Stack
				return p
			case "*stackage.Condition":
				var p *stackage.Condition
				return p
			case "*stackage.ComparisonOperator":
				var p *stackage.ComparisonOperator
				return p
			case "stackage.Stack":
				return stackage.Stack{}
			case "stackage.Condition":
				return stackage.Condition{}
			}
			return BuildNode(o)
		}
		return BuildNode(structToTree(o))
	}
	return nil
}

func eqFoldLabels(a, b any) bool {
	// deep equality of two Unmarshal results, labels (first string of each slice) compared case-insensitively
	as, aok := a.([]any)
	bs, bok := b.([]any)
	if aok != bok {
		return false
	}
	if !aok {
		if _, isC := stackage.ConvertCondition(a); isC {
			ca, _ := stackage.ConvertCondition(a)
			cb, ok := stackage.ConvertCondition(b)
			return ok && ca.IsEqual(cb) == nil
		}
		return reflect.DeepEqual(a, b)
	}
	if len(as) != len(bs) {
		return false
	}
	for i := range as {
		if i == 0 {
			sa, ok1 := as[0].(string)
			sb, ok2 := bs[0].(string)
			if ok1 && ok2 {
				if !strings.EqualFold(sa, sb) {
					return false
				}
				continue
			}
		}
		if !eqFoldLabels(as[i], bs[i]) {
			return false
		}
	}
	return true
}

func usable(s stackage.Stack, twin ...stackage.Stack) (msg string) {
	defer func() {
		if r := recover(); r != nil {
			msg = "PANIC after Marshal: " + fmt.Sprint(r)
		}
	}()
	_ = s.String()
	_, _ = s.Unmarshal()
	_ = s.IsEqual(s)
	_ = s.IsEqual(stackage.And().Push("zz"))
	for _, t := range twin { // an independent second decode of the same input: the comparison walks every element
		_ = s.IsEqual(t)
		_ = t.IsEqual(s)
	}
	return "ok"
}

// repairU returns u with the operator slot of every CONDITION row filled by a valid operator wherever it
// holds anything else (junk, nil, a typed nil, an invalid operator).
func repairU(u any) any {
	us, ok := u.([]any)
	if !ok {
		return u
	}
	out := make([]any, len(us))
	for i := range us {
		out[i] = repairU(us[i])
	}
	if lab, ok := firstLabel(out); ok && strings.EqualFold(lab, "CONDITION") && len(out) >= 3 {
		good := false
		if op, ok := out[2].(stackage.ComparisonOperator); ok && op >= stackage.Eq && op <= stackage.Ge {
			good = true
		}
		if !good {
			out[2] = stackage.Eq
		}
	}
	return out
}

func firstLabel(us []any) (string, bool) {
	if len(us) == 0 {
		return "", false
	}
	l, ok := us[0].(string)
	return l, ok
}

func usableRepaired(rec stackage.Stack, u any, single, live bool) (msg string) {
	defer func() {
		if r := recover(); r != nil {
			msg = "PANIC after Marshal (comparison with the operator-repaired twin): " + fmt.Sprint(r)
		}
	}()
	var twin stackage.Stack
	if live {
		twin = stackage.And().Push("r0")
	}
	ru := repairU(u)
	if rs, ok := ru.([]any); ok && !single {
		_ = twin.Marshal(rs...)
	} else {
		_ = twin.Marshal(ru)
	}
	_ = rec.IsEqual(twin)
	_ = twin.IsEqual(rec)
	return "ok"
}

func init() {
	evaluators["codec"] = func(in Node, arg any) any {
		a, _ := arg.(map[string]any)
		form, _ := a["form"].(string)
		if a["mode"] == "roundtrip" {
			orig, _ := stackage.ConvertStack(BuildNode(in))
			u1, err := orig.Unmarshal()
			out := map[string]any{"total": "ok", "u1": ProjectU(u1), "err": "nil", "u2eq": "false", "iseq": "*"}
			if err != nil {
				out["err"] = "unmarshal error"
				return out
			}
			var rec stackage.Stack
			var merr error
			if form == "single" {
				merr = rec.Marshal(u1)
			} else {
				merr = rec.Marshal(u1...)
			}
			if merr != nil {
				out["err"] = "err"
			}
			out["struct"] = ProjectStruct(rec)
			u2, _ := rec.Unmarshal()
			out["u2eq"] = b2s(eqFoldLabels(u1, u2))
			if a["cmpeq"] == true {
				out["iseq"] = []string{b2s(orig.IsEqual(rec) == nil), b2s(rec.IsEqual(orig) == nil)}
			}
			return out
		}
		// mode marshal: junk into a zero or an initialised receiver
		u := BuildU(in)
		var rec stackage.Stack
		if a["recv"] == "live" {
			rec = stackage.And().Push("r0")
		}
		var merr error
		us, isSeq := u.([]any)
		if form == "single" || !isSeq {
			merr = rec.Marshal(u)
		} else {
			merr = rec.Marshal(us...)
		}
		out := map[string]any{"total": "ok", "err": "nil", "init": b2s(rec.IsInit()), "contract": "ok"}
		if merr != nil {
			out["err"] = "err"
		}
		if merr == nil && !rec.IsInit() {
			out["contract"] = "neither an error nor an initialised receiver"
		}
		if rec.IsInit() {
			var twin stackage.Stack
			if a["recv"] == "live" {
				twin = stackage.And().Push("r0")
			}
			if form == "single" || !isSeq {
				_ = twin.Marshal(BuildU(in))
			} else if us2, ok := BuildU(in).([]any); ok {
				_ = twin.Marshal(us2...)
			}
			out["total"] = usable(rec, twin)
			if out["total"] == "ok" {
				// a structurally matching tree whose CONDITION rows all carry a proper operator: the comparison
				// then reaches the very field the junk row left unset (an operator on one side only)
				out["total"] = usableRepaired(rec, BuildU(in), form == "single" || !isSeq, a["recv"] == "live")
			}
			out["struct"] = ProjectStruct(rec)
		} else {
			out["struct"] = Node{"t": "nil"}
		}
		return out
	}
}

func hasFoldOrCap(n Node) bool {
	switch nStr(n, "t") {
	case "stk":
		if nBool(n, "fold") {
			return true
		}
		for _, k := range nKids(n, "e") {
			if hasFoldOrCap(k) {
				return true
			}
		}
	case "cnd":
		if ex, ok := n["ex"].(map[string]any); ok {
			return hasFoldOrCap(ex)
		}
	}
	return false
}

func (g *treeGen) junk(depth int) Node {
	lbls := [][]string{{"A", "N", "D"}, {"o", "r"}, {"N", "o", "T"}, {"L", "I", "S", "T"}, {"b", "a", "s", "i", "c"},
		{"C", "O", "N", "D", "I", "T", "I", "O", "N"}, {"c", "o", "n", "d", "i", "t", "i", "o", "n"}, {"j", "u", "n", "k"}, {}}
	val := func() Node {
		switch g.rng.Intn(14) {
		case 0:
			return Node{"t": "nil"}
		case 1:
			return Node{"t": "leaf", "ty": "int", "v": []any{"7"}}
		case 2:
			return Node{"t": "op", "id": []string{"Eq", "Ne", "user", "uslice", "op0", "emptytext", "nilop"}[g.rng.Intn(7)]}
		case 3:
			return Node{"t": "obj", "o": Node{"t": "leaf", "ty": "*int", "v": []any{}}}
		case 4:
			return Node{"t": "obj", "o": Node{"t": "leaf", "ty": []string{"stackage.Stack", "stackage.Condition"}[g.rng.Intn(2)], "v": []any{}}}
		case 5:
			return Node{"t": "obj", "o": Node{"t": "stk", "k": "OR", "e": []any{Node{"t": "leaf", "ty": "str", "v": []any{"x"}}}}}
		case 6:
			return Node{"t": "obj", "o": Node{"t": "cnd", "kw": []any{"k"}, "op": "Eq", "ex": Node{"t": "leaf", "ty": "str", "v": []any{"v"}}}}
		case 7, 8:
			return Node{"t": "leaf", "ty": "str", "v": toksAny(lbls[g.rng.Intn(len(lbls))])}
		}
		return Node{"t": "leaf", "ty": "str", "v": g.toks(0, 3, []string{"a", "b", "k"})}
	}
	n := g.rng.Intn(5)
	es := []any{}
	for i := 0; i < n; i++ {
		if depth < g.maxDepth && g.rng.Intn(3) == 0 {
			es = append(es, g.junk(depth+1))
		} else {
			es = append(es, val())
		}
	}
	if n > 0 && g.rng.Intn(3) != 0 {
		es[0] = Node{"t": "leaf", "ty": "str", "v": toksAny(lbls[g.rng.Intn(len(lbls))])}
	}
	return Node{"t": "seq", "e": es}
}

func init() {
	treeGenerators["codec"] = func(g *treeGen) (Node, any) {
		form := []string{"variadic", "single"}[g.rng.Intn(2)]
		if g.rng.Intn(2) == 0 {
			return g.junk(0), map[string]any{"mode": "marshal", "form": form, "recv": []string{"zero", "live"}[g.rng.Intn(2)]}
		}
		g.nils, g.validConds = true, true
		s := g.stack(0)
		s["enc"], s["sym"], s["delim"] = []any{}, []any{}, []any{}
		return s, map[string]any{"mode": "roundtrip", "form": form, "cmpeq": !hasFoldOrCap(s)}
	}
}


// ---- IsEqual -------------------------------------------------------------------------

func eqVerdict(a, b any) string {
	var err error
	if s, ok := stackage.ConvertStack(a); ok {
		err = s.IsEqual(b)
	} else if c, ok := stackage.ConvertCondition(a); ok {
		err = c.IsEqual(b)
	} else {
		return "n/a"
	}
	if err != nil {
		return "err"
	}
	return "nil"
}

func init() {
	evaluators["equal"] = func(in Node, _ any) any {
		an, _ := in["a"].(map[string]any)
		bn, _ := in["b"].(map[string]any)
		a, b := BuildNode(an), BuildNode(bn) // two independent builds
		shareBacking(a, b)
		first := []string{eqVerdict(a, b), eqVerdict(b, a)}
		// the verdict belongs to the two values, not to the history: asked again (both orders, twice) it is the same
		for rep := 0; rep < 2; rep++ {
			if again := []string{eqVerdict(a, b), eqVerdict(b, a)}; again[0] != first[0] || again[1] != first[1] {
				return []string{"unstable:" + first[0] + "->" + again[0], "unstable:" + first[1] + "->" + again[1]}
			}
		}
		return first
	}
	treeGenerators["equal"] = func(g *treeGen) (Node, any) {
		g.nils, g.validConds = true, true
		a := g.eqStack(0)
		b := toGeneric(a).(map[string]any)
		if g.rng.Intn(3) != 0 {
			g.mutate(b)
		}
		return Node{"t": "pair", "a": a, "b": b}, nil
	}
}

// shareBacking: where the two trees hold, at the same top-level position, []int leaves of DIFFERENT length of which one is a
// prefix of the other (the "one element more / fewer" mutation), the shorter one is replaced by a re-slice of the longer one's
// backing array -- the way such a pair arises in practice (b := a[:n-1]).  Same start address, different values.
func shareBacking(a, b any) {
	sa, oka := stackage.ConvertStack(a)
	sb, okb := stackage.ConvertStack(b)
	if !oka || !okb {
		return
	}
	for i := 0; i < sa.Len() && i < sb.Len(); i++ {
		ea, _ := sa.Index(i)
		eb, _ := sb.Index(i)
		xa, ok1 := ea.([]int)
		xb, ok2 := eb.([]int)
		if !ok1 || !ok2 || len(xa) == len(xb) {
			continue
		}
		if len(xa) > len(xb) && reflect.DeepEqual(xa[:len(xb)], xb) {
			sb.Replace(xa[:len(xb)], i)
		} else if len(xb) > len(xa) && reflect.DeepEqual(xb[:len(xa)], xa) && len(xa) > 0 {
			sa.Replace(xb[:len(xa)], i)
		}
	}
}

func (g *treeGen) eqLeaf() Node {
	ints := func(n int) []any {
		out := []any{}
		for i := 0; i < n; i++ {
			out = append(out, Node{"t": "leaf", "ty": "int", "v": []any{fmt.Sprint(1 + g.rng.Intn(8))}})
		}
		return out
	}
	switch g.rng.Intn(12) {
	case 0:
		return Node{"t": "nil"}
	case 1:
		return Node{"t": "leaf", "ty": "int", "v": []any{fmt.Sprint(1 + g.rng.Intn(8))}}
	case 2:
		return Node{"t": "leaf", "ty": "bool", "v": toksAny(Tokenize("true"))}
	case 3:
		return Node{"t": "ptr", "d": 1 + g.rng.Intn(2), "x": Node{"t": "leaf", "ty": "int", "v": []any{"5"}}}
	case 4, 5:
		sl := Node{"t": "sl", "arr": g.rng.Intn(3) == 0, "ety": "typed", "slack": []int{0, 0, 5}[g.rng.Intn(3)], "e": ints(1 + g.rng.Intn(4))}
		switch g.rng.Intn(5) {
		case 0: // []*int, perhaps with a nil pointer
			sl["arr"], sl["ety"] = false, "ptr"
			if e := sl["e"].([]any); g.rng.Intn(2) == 0 {
				e[g.rng.Intn(len(e))] = Node{"t": "nil"}
			}
		case 1: // []any of mixed leaves
			sl["arr"], sl["ety"] = false, "any"
			e := sl["e"].([]any)
			for i := range e {
				switch g.rng.Intn(6) {
				case 0:
					e[i] = Node{"t": "nil"}
				case 1:
					e[i] = Node{"t": "ptr", "d": 1 + g.rng.Intn(2), "x": Node{"t": "leaf", "ty": "int", "v": []any{"5"}}}
				case 2:
					e[i] = Node{"t": "leaf", "ty": "str", "v": g.toks(1, 2, []string{"a", "b"})}
				case 3:
					e[i] = Node{"t": "sl", "arr": false, "ety": "typed", "slack": 0, "e": ints(1 + g.rng.Intn(2))}
				case 4:
					e[i] = Node{"t": "st", "a": []any{fmt.Sprint(1 + g.rng.Intn(8))}, "p": []any{"p"}, "c": []any{"c"}, "sty": "plain"}
				}
			}
		}
		return sl
	case 6:
		return Node{"t": "sl", "arr": false, "ety": "typed", "slack": 0, "e": []any{Node{"t": "sl", "arr": false, "ety": "typed", "slack": 0, "e": ints(2)},
			Node{"t": "sl", "arr": false, "ety": "typed", "slack": []int{0, 5}[g.rng.Intn(2)], "e": ints(1 + g.rng.Intn(3))}}}
	case 7:
		return Node{"t": "mp", "vp": g.rng.Intn(2) == 0, "ks": []any{[]any{"k"}, []any{"j"}}, "vs": []any{[]any{"1"}, []any{fmt.Sprint(2 + g.rng.Intn(7))}}}
	case 8:
		if g.rng.Intn(2) == 0 {
			vals := []any{Node{"t": "nil"}, Node{"t": "leaf", "ty": "str", "v": []any{"x"}}}
			if g.rng.Intn(2) == 0 {
				vals[0], vals[1] = vals[1], vals[0]
			}
			return Node{"t": "mpa", "ks": []any{[]any{"k"}, []any{"j"}}, "e": vals}
		}
		return Node{"t": "st", "a": []any{fmt.Sprint(1 + g.rng.Intn(8))}, "p": []any{"p"}, "c": []any{"c"}, "sty": "plain"}
	case 9:
		return Node{"t": "ptr", "d": 1, "x": Node{"t": "st", "a": []any{"3"}, "p": []any{"r"}, "c": []any{"d"}, "sty": []string{"plain", "embp", "embx"}[g.rng.Intn(3)]}}
	}
	return Node{"t": "leaf", "ty": "str", "v": g.toks(1, 3, []string{"a", "b", "x"})}
}

func (g *treeGen) eqStack(depth int) Node {
	n := Node{"t": "stk", "k": []string{"AND", "OR", "NOT", "LIST", "BASIC"}[g.rng.Intn(5)], "form": "native", "paren": g.rng.Intn(2) == 0, "fold": false,
		"nspad": g.rng.Intn(2) == 0, "lonce": false, "sym": []any{}, "delim": []any{}, "enc": []any{}, "neg": false, "fwd": false, "mtx": false,
		"cap": []int{0, 0, 9}[g.rng.Intn(3)]}
	kids := []any{}
	for i := 0; i < g.rng.Intn(4); i++ {
		r := g.rng.Intn(10)
		switch {
		case r < 6 || depth >= g.maxDepth:
			kids = append(kids, g.eqLeaf())
		case r < 8:
			s := g.eqStack(depth + 1)
			s["form"] = g.form()
			kids = append(kids, s)
		default:
			var ex Node
			if g.rng.Intn(2) == 0 {
				ex = g.eqLeaf()
				if ex["t"] == "nil" {
					ex = Node{"t": "leaf", "ty": "str", "v": []any{"v"}}
				}
			} else {
				ex = g.eqStack(depth + 1)
			}
			kids = append(kids, Node{"t": "cnd", "form": g.form(), "kw": [][]any{{"k"}, {"K", "x"}, {"c"}}[g.rng.Intn(3)], "op": []string{"Eq", "Ne", "Ge", "like", "LIKE", "uslice"}[g.rng.Intn(6)], "ex": ex,
				"paren": false, "nspad": false, "enc": []any{}})
		}
	}
	n["e"] = kids
	return n
}

// retype: Stack / Condition -> a text, anything else -> a Condition (Retype of spec/Equal.tla)
func retype(m map[string]any) Node {
	if m["t"] == "stk" || m["t"] == "cnd" {
		return Node{"t": "leaf", "ty": "str", "v": []any{"q"}}
	}
	return Node{"t": "cnd", "form": "native", "kw": []any{"k"}, "op": "Eq", "ex": Node{"t": "leaf", "ty": "str", "v": []any{"v"}}, "paren": false, "nspad": false, "enc": []any{}}
}

// mutate applies one random point mutation somewhere in the description
func (g *treeGen) mutate(n map[string]any) {
	bump := func(v any) []any {
		t := anyToks(v)
		if len(t) == 0 {
			return []any{"q"}
		}
		c := "q"
		if t[0] >= "0" && t[0] <= "8" {
			c = "9"
		} else if t[0] == "9" {
			c = "8"
		} else if t[0] == "q" {
			c = "w"
		}
		return append([]any{c}, toksAny(t[1:])...)
	}
	kids := func(k string) []any { l, _ := n[k].([]any); return l }
	switch n["t"] {
	case "leaf":
		if (n["ty"] == "int" || n["ty"] == "bool") && g.rng.Intn(4) == 0 { // another Go type that PRINTS the same
			if n["ty"] == "int" && g.rng.Intn(2) == 0 {
				n["ty"] = "flt"
			} else {
				n["ty"] = "str"
			}
			return
		}
		if n["ty"] == "bool" {
			if Detok(anyToks(n["v"])) == "true" {
				n["v"] = toksAny(Tokenize("false"))
			} else {
				n["v"] = toksAny(Tokenize("true"))
			}
		} else {
			n["v"] = bump(n["v"])
		}
	case "ptr":
		g.mutate(n["x"].(map[string]any))
	case "sl":
		e := kids("e")
		if len(e) == 0 {
			return
		}
		allInts := true
		for _, k := range e {
			if m, _ := k.(map[string]any); m == nil || m["t"] != "leaf" || m["ty"] != "int" {
				allInts = false
			}
		}
		switch r := g.rng.Intn(6); {
		case r == 0: // allocated differently: must NOT matter
			if argIntDefault(n["slack"], 0) == 0 {
				n["slack"] = 5
			} else {
				n["slack"] = 0
			}
		case r == 1 && allInts && !nBool(n, "arr"): // []int = []*int = []any: must NOT matter
			n["ety"] = map[string]string{"typed": "ptr", "ptr": "any", "any": "typed", "": "ptr"}[nStr(n, "ety")]
		case r == 2 && (n["ety"] == "ptr" || n["ety"] == "any"): // nil element <-> a value
			i := g.rng.Intn(len(e))
			if m, _ := e[i].(map[string]any); m != nil && m["t"] == "nil" {
				e[i] = Node{"t": "leaf", "ty": "int", "v": []any{"7"}}
			} else {
				e[i] = Node{"t": "nil"}
			}
		default:
			if m, _ := e[g.rng.Intn(len(e))].(map[string]any); m != nil && m["t"] != "nil" {
				g.mutate(m)
			}
		}
	case "mp":
		vs := kids("vs")
		if len(vs) > 0 {
			i := g.rng.Intn(len(vs))
			if g.rng.Intn(2) == 0 {
				vs[i] = bump(vs[i])
			} else {
				ks := kids("ks")
				ks[i] = bump(ks[i])
			}
		}
	case "mpa":
		e := kids("e")
		if len(e) > 0 {
			i := g.rng.Intn(len(e))
			if m, _ := e[i].(map[string]any); m != nil && m["t"] == "nil" {
				e[i] = Node{"t": "leaf", "ty": "str", "v": []any{"q"}}
			} else {
				e[i] = Node{"t": "nil"}
			}
		}
	case "st":
		if n["sty"] != "plain" && n["sty"] != nil && g.rng.Intn(3) == 0 { // another struct type
			if n["sty"] == "embp" {
				n["sty"] = "embx"
			} else {
				n["sty"] = "embp"
			}
			return
		}
		switch g.rng.Intn(3) {
		case 0:
			n["a"] = bump(n["a"])
		case 1:
			n["c"] = bump(n["c"])
		default:
			n["p"] = bump(n["p"]) // unexported: must NOT matter
		}
	case "cnd":
		if g.rng.Intn(8) == 0 { // the expression replaced by another sort of value
			if ex, _ := n["ex"].(map[string]any); ex != nil {
				n["ex"] = retype(ex)
				return
			}
		}
		switch g.rng.Intn(6) {
		case 4: // letter case alone: keywords and operator texts are case sensitive
			t := anyToks(n["kw"])
			for i := range t {
				if strings.ToUpper(t[i]) != t[i] {
					t[i] = strings.ToUpper(t[i])
				} else {
					t[i] = strings.ToLower(t[i])
				}
			}
			n["kw"] = toksAny(t)
		case 5:
			if n["op"] == "like" {
				n["op"] = "LIKE"
			} else if n["op"] == "LIKE" {
				n["op"] = "like"
			} else {
				n["kw"] = bump(n["kw"])
			}
		case 0:
			n["kw"] = bump(n["kw"])
		case 1:
			if n["op"] == "Eq" {
				n["op"] = "Ne"
			} else {
				n["op"] = "Eq"
			}
		default:
			g.mutate(n["ex"].(map[string]any))
		}
	case "stk":
		e := kids("e")
		switch r := g.rng.Intn(8); {
		case r == 0:
			if n["k"] == "AND" {
				n["k"] = "OR"
			} else {
				n["k"] = "AND"
			}
		case r == 1 && len(e) > 0:
			n["e"] = e[1:]
		case r == 3 && len(e) > 0 && g.rng.Intn(2) == 0: // an element replaced by another sort of value
			i := g.rng.Intn(len(e))
			if m, ok := e[i].(map[string]any); ok {
				e[i] = retype(m)
			}
		case r == 2:
			n["paren"] = !nBool(n, "paren") // must NOT matter
		case len(e) > 0:
			if m, ok := e[g.rng.Intn(len(e))].(map[string]any); ok && m["t"] != "nil" {
				g.mutate(m)
			} else {
				n["e"] = append(e, Node{"t": "leaf", "ty": "str", "v": []any{"z"}})
			}
		default:
			n["e"] = append(e, Node{"t": "leaf", "ty": "str", "v": []any{"z"}})
		}
	}
}


// ---- ConvertStack / ConvertCondition -------------------------------------------------

func init() {
	evaluators["convert"] = func(in Node, arg any) any {
		of, cls := nStr(in, "of"), nStr(in, "c")
		var v any
		var under string // Addr() of the underlying native instance
		s := stackage.And().Push("u")
		c := stackage.Cond("k", stackage.Eq, "v")
		if of == "stack" {
			under = s.Addr()
		} else {
			under = c.Addr()
		}
		pick := func(sv, cv any) any {
			if of == "stack" {
				return sv
			}
			return cv
		}
		as, ac := AStack(s), ACond(c)
		pas, pac := &as, &ac
		var zas AStack
		var zac ACond
		var nas *AStack
		var nac *ACond
		one := 1
		switch cls {
		case "native":
			v = pick(s, c)
		case "alias":
			v = pick(as, ac)
		case "walias":
			v = pick(WStack(s), WCond(c))
		case "xalias":
			v = pick(XStack(s), XCond(c))
		case "ptr":
			v = pick(pas, pac)
		case "ptrptr":
			v = pick(&pas, &pac)
		case "zero-native":
			v = pick(stackage.Stack{}, stackage.Condition{})
		case "zero-alias":
			v = pick(zas, zac)
		case "ptr-zero-alias":
			v = pick(&zas, &zac)
		case "nil-ptr-alias":
			v = pick(nas, nac)
		case "nil":
			v = nil
		case "int":
			v = 7
		case "string":
			v = "s"
		case "struct":
			v = struct{ X int }{1}
		case "slice":
			v = []any{s, c}
		case "ptr-int":
			v = &one
		case "func":
			v = func() {}
		}
		out := map[string]any{"ok": "false", "same": "false", "zero": "true"}
		if arg == "stack" {
			r, ok := stackage.ConvertStack(v)
			out["ok"], out["zero"] = b2s(ok), b2s(r.IsZero())
			out["same"] = b2s(!r.IsZero() && r.Addr() == under)
		} else {
			r, ok := stackage.ConvertCondition(v)
			out["ok"], out["zero"] = b2s(ok), b2s(r.IsZero())
			out["same"] = b2s(!r.IsZero() && r.Addr() == under)
		}
		return out
	}
}
