package main

import (
	"encoding/json"
	"flag"
	"fmt"
	"math/rand"
	"os"
	"sort"
	"strings"

	stackage "github.com/JesseCoretta/go-stackage"
)

func die(code int, f string, a ...any) {
	fmt.Fprintf(os.Stderr, f+"\n", a...)
	os.Exit(code)
}

func writeJSON(path string, v any) {
	j, _ := json.MarshalIndent(v, "", " ")
	if path == "" || path == "-" {
		fmt.Println(string(j))
		return
	}
	if err := os.WriteFile(path, j, 0o644); err != nil {
		die(2, "write %s: %v", path, err)
	}
}

func cmdTable(args []string) {
	fs := flag.NewFlagSet("table", flag.ExitOnError)
	tab := fs.String("table", "", "transition table (ndjson from TLC)")
	prop := fs.String("prop", "", "property id")
	depth := fs.Int("depth", 2, "exhaustive path depth")
	walks := fs.Int("walks", 200, "number of random walks")
	wlen := fs.Int("wlen", 40, "length of random walks")
	seed := fs.Int64("seed", 1, "seed")
	out := fs.String("mismatches", "", "ndjson file receiving mismatch replay records")
	summ := fs.String("summary", "-", "summary json")
	maxrep := fs.Int("maxreport", 5, "records kept per mismatch class")
	fields := fs.String("fields", "", "comma separated observables to compare (default all)")
	mach := fs.String("machine", "stack", "state machine: stack | cond")
	_ = fs.Parse(args)
	setFields(*fields)
	if machines[*mach] == nil {
		die(2, "unknown machine %s", *mach)
	}
	t, err := LoadTable(*tab)
	if err != nil {
		die(2, "load table: %v", err)
	}
	of, err := os.Create(*out)
	if err != nil {
		die(2, "%v", err)
	}
	defer of.Close()
	rp := &Replayer{T: t, M: machines[*mach], Prop: *prop, Out: json.NewEncoder(of), MaxReport: *maxrep, Classes: map[string]int{}}
	var inits []string
	for _, k := range t.Order {
		if t.States[k].Init {
			inits = append(inits, k)
		}
	}
	if len(inits) == 0 {
		die(2, "table has no initial states")
	}
	if err := rp.Transitions(); err != nil {
		die(2, "transitions: %v", err)
	}
	ntr := rp.Steps
	for d := 2; d <= *depth; d++ {
		if err := rp.PathsDepth(d, inits); err != nil {
			die(2, "paths: %v", err)
		}
	}
	npaths := rp.Paths
	if err := rp.Walks(rand.New(rand.NewSource(*seed)), *walks, *wlen, inits); err != nil {
		die(2, "walks: %v", err)
	}
	var classes []string
	for c := range rp.Classes {
		classes = append(classes, c)
	}
	sort.Strings(classes)
	writeJSON(*summ, map[string]any{
		"states": len(t.States), "transitions": t.NTrans, "inits": len(inits),
		"transitions_replayed": ntr, "paths_replayed": npaths, "walks": rp.Paths - npaths,
		"steps_executed": rp.Steps, "mismatches": rp.Mismatches, "classes": rp.Classes,
		"samples": rp.Samples,
	})
}

func setFields(f string) {
	if f == "" {
		return
	}
	ObsFields = map[string]bool{}
	for _, k := range strings.Split(f, ",") {
		ObsFields[strings.TrimSpace(k)] = true
	}
}

func cmdReplay(args []string) {
	fs := flag.NewFlagSet("replay", flag.ExitOnError)
	fields := fs.String("fields", "", "comma separated observables to compare (default all)")
	_ = fs.Parse(args)
	setFields(*fields)
	if fs.NArg() < 1 {
		die(2, "usage: replay <file>")
	}
	b, err := os.ReadFile(fs.Arg(0))
	if err != nil {
		die(2, "%v", err)
	}
	var probe struct {
		Kind string `json:"kind"`
	}
	_ = json.Unmarshal(b, &probe)
	if probe.Kind == "sweep" {
		var sr SweepReplay
		if err := json.Unmarshal(b, &sr); err != nil {
			die(2, "replay file: %v", err)
		}
		again, info := RunSweepReplay(&sr)
		if again {
			fmt.Printf("DISAGREES kind=sweep rules=%v (facts reproduced)\n  %s\n", sr.Rules, info)
			os.Exit(1)
		}
		fmt.Println("AGREES (recorded facts did not reproduce)\n  " + info)
		return
	}
	if h, ok := replayKinds[probe.Kind]; ok {
		h(b)
		return
	}
	var r Replay
	if err := json.Unmarshal(b, &r); err != nil {
		die(2, "replay file: %v", err)
	}
	for i := range r.Steps {
		if r.Steps[i].ExpRet == nil {
			r.Steps[i].ExpRet = []string{}
		}
	}
	kind, det := RunReplay(&r)
	if kind == "" {
		fmt.Println("AGREES")
		return
	}
	fmt.Printf("DISAGREES kind=%s\n", kind)
	for _, d := range det {
		fmt.Println("  " + d)
	}
	os.Exit(1)
}

func main() {
	if len(os.Args) < 2 {
		die(2, "usage: harness <cmd> ...")
	}
	prelude()
	switch os.Args[1] {
	case "table":
		cmdTable(os.Args[2:])
	case "replay":
		cmdReplay(os.Args[2:])
	default:
		if f, ok := commands[os.Args[1]]; ok {
			f(os.Args[2:])
			return
		}
		die(2, "unknown command %s", os.Args[1])
	}
}

// prelude: before anything is measured, every awkward value (typed nil pointers to every alias type, zero aliases, foreign
// values ...) is offered once to the package-level converters.  A package that remembers anything about the values it has seen
// (a type cache, a pooled buffer) has seen the worst of them by the time the cases run; a correct one is unaffected.
func prelude() {
	vals := awkwardCatalogue()
	vals = append(vals, named{"typednil-*WStack", (*WStack)(nil)}, named{"typednil-*XStack", (*XStack)(nil)},
		named{"typednil-*WCond", (*WCond)(nil)}, named{"typednil-*XCond", (*XCond)(nil)},
		named{"zero-WStack", WStack{}}, named{"zero-XStack", XStack{}}, named{"zero-ACond", ACond{}}, named{"zero-WCond", WCond{}}, named{"zero-XCond", XCond{}})
	vals = append(shadowTypes(), vals...) // the look-alikes first: nothing genuine has been seen under those names yet
	for _, nv := range vals {
		func() {
			defer func() { _ = recover() }()
			_, _ = stackage.ConvertStack(nv.v)
			_, _ = stackage.ConvertCondition(nv.v)
		}()
	}
	// ... and a few comparisons of function-local struct types that print like the harness's struct leaves ("main.eqStruct" ...)
	// but have other fields: whatever IsEqual remembers per type NAME is wrong for the real ones
	func() {
		defer func() { _ = recover() }()
		type eqStruct struct{ A int }
		type eqStructP struct {
			A, B, C, D int
		}
		type eqStructX struct{ Z string }
		type privStruct struct{ Q []int }
		for _, pair := range [][2]any{{eqStruct{1}, eqStruct{1}}, {eqStructP{1, 2, 3, 4}, eqStructP{1, 2, 3, 4}}, {eqStructX{"z"}, eqStructX{"z"}},
			{privStruct{[]int{1}}, privStruct{[]int{1}}}} {
			_ = stackage.And().Push(pair[0]).IsEqual(stackage.And().Push(pair[1]))
			_ = stackage.Cond("k", stackage.Eq, pair[0]).IsEqual(stackage.Cond("k", stackage.Eq, pair[1]))
		}
	}()
}

// shadowTypes: values of function-local types that carry the SAME printed name as the harness's alias types ("main.AStack" ...)
// but are no Stacks / Conditions at all.  Go types are identified by identity, not by name: whatever the package remembers about
// "main.AStack" after seeing these must not concern the real alias types.
func shadowTypes() []named {
	out := []named{}
	func() {
		type AStack struct{ X int }
		type WStack struct{ X int }
		type XStack struct{ X int }
		type ACond struct{ X string }
		type WCond struct{ X string }
		type XCond struct{ X string }
		a, w, x, ac, wc, xc := AStack{1}, WStack{1}, XStack{1}, ACond{"k"}, WCond{"k"}, XCond{"k"}
		out = append(out, named{"shadow-AStack", a}, named{"shadow-*AStack", &a}, named{"shadow-WStack", w}, named{"shadow-*WStack", &w},
			named{"shadow-XStack", x}, named{"shadow-*XStack", &x}, named{"shadow-ACond", ac}, named{"shadow-*ACond", &ac},
			named{"shadow-WCond", wc}, named{"shadow-*WCond", &wc}, named{"shadow-XCond", xc}, named{"shadow-*XCond", &xc})
	}()
	return out
}

var commands = map[string]func([]string){}

// replayKinds: re-execution handlers for the other kinds of replay records
var replayKinds = map[string]func([]byte){}
