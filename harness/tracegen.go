package main

// tracegen.go: code -> spec.  A seeded random driver issues calls on real
// Stacks and records, per call, the arguments, the projected return values
// and the full projected state.  It contains no model: indices are drawn
// from the real Len(), and nothing is predicted.  The recorded file is
// validated by spec/StackageTrace.tla.

import (
	"bufio"
	"encoding/json"
	"flag"
	"fmt"
	"math/rand"
	"os"
	"strings"
)

type TraceLine struct {
	Ev   string   `json:"ev"`
	St   *AState  `json:"st,omitempty"`
	Dst  *AState  `json:"dst,omitempty"`
	On   string   `json:"on,omitempty"`
	C    Call     `json:"c,omitempty"`
	Ret  []string `json:"ret"`
	Obs  *Obs     `json:"obs,omitempty"`
	DObs *Obs     `json:"dobs,omitempty"`
}

var allKinds = []string{"AND", "OR", "NOT", "LIST", "BASIC"}
var idxFlags = []string{"neg", "fwd"}

type genCfg struct {
	fams    map[string]bool
	mode    string // existing | all
	nvals   int
	maxLen  int
	nest    bool
}

func (g *genCfg) val(rng *rand.Rand, allowNil bool) string {
	r := rng.Intn(100)
	if allowNil && r < 12 {
		return "nil"
	}
	if g.nest && r < 30 {
		return []string{"S", "A", "P", "C"}[rng.Intn(4)]
	}
	return fmt.Sprintf("v%d", rng.Intn(g.nvals))
}

func (g *genCfg) anyIdx(rng *rand.Rand, L int) int {
	if g.mode == "all" && rng.Intn(12) == 0 {
		return []int{-1000000, 1000000}[rng.Intn(2)]
	}
	return rng.Intn(2*L+3) - (L + 1)
}

// rawIdx: an index for Replace / Swap
func (g *genCfg) rawIdx(rng *rand.Rand, L int) (int, bool) {
	if g.mode == "all" {
		return g.anyIdx(rng, L), true
	}
	if L == 0 {
		return 0, false
	}
	return rng.Intn(L), true
}

// lkIdx: an index for Remove; in "existing" mode one that addresses a slot
// under the options currently set (read back from the real object)
func (g *genCfg) lkIdx(rng *rand.Rand, o *Obj, L int) (int, bool) {
	if g.mode == "all" {
		return g.anyIdx(rng, L), true
	}
	if L == 0 {
		return 0, false
	}
	d := stackageDumpOpt(o)
	choices := []int{}
	for i := 0; i < L; i++ {
		choices = append(choices, i)
	}
	if d&16 != 0 { // negative indices on
		for i := 1; i <= L; i++ {
			choices = append(choices, -i)
		}
	}
	if d&32 != 0 { // forward indices on
		choices = append(choices, L, L+1)
	}
	return choices[rng.Intn(len(choices))], true
}

func (g *genCfg) pick(rng *rand.Rand, o, d *Obj) (Call, string) {
	L := o.S.Len()
	var menu []string
	if g.fams["list"] {
		menu = append(menu, "Push", "Push", "Push", "Pop", "Insert", "Insert", "Remove", "Replace", "Swap", "Reverse", "Reset", "SetFIFO")
	}
	if g.fams["opts"] {
		menu = append(menu, "SetOpt", "SetOpt")
	}
	if g.fams["idxopts"] {
		menu = append(menu, "SetIdxOpt")
	}
	if g.fams["policy"] {
		menu = append(menu, "SetPushPolicy")
	}
	if g.fams["life"] {
		menu = append(menu, "Free", "SetErr", "SetMutex")
	}
	if g.fams["query"] {
		menu = append(menu, "Index", "Front", "Back")
	}
	if g.fams["transfer"] {
		menu = append(menu, "Transfer", "Transfer", "DstPush", "DstPop", "DstRonly", "DstNnest")
	}
	if g.fams["marshal"] {
		menu = append(menu, "Marshal")
	}
	if g.fams["loglevel"] {
		menu = append(menu, "SetLogLevel", "UnsetLogLevel")
	}
	if g.fams["closures"] {
		menu = append(menu, "SetValidityPolicy", "SetClosure", "SetClosure")
	}
	if g.fams["settings"] {
		menu = append(menu, "SetID", "SetCategory", "SetDelimiter", "SetSymbol", "SetEncap")
	}
	if g.fams["aux"] {
		menu = append(menu, "SetAuxiliary", "SetLogger")
	}
	for tries := 0; tries < 50; tries++ {
		switch op := menu[rng.Intn(len(menu))]; op {
		case "Push":
			n := 1 + rng.Intn(3)
			if L+n > g.maxLen {
				continue
			}
			xs := []any{}
			for i := 0; i < n; i++ {
				xs = append(xs, g.val(rng, true))
			}
			return Call{"op": "Push", "xs": xs}, "st"
		case "Pop", "Reverse", "Reset", "Front", "Back", "Free", "SetMutex":
			if op == "Free" && rng.Intn(4) != 0 {
				continue
			}
			return Call{"op": op}, "st"
		case "Insert":
			if L+1 > g.maxLen {
				continue
			}
			return Call{"op": "Insert", "x": g.val(rng, g.mode == "all"), "i": g.anyIdx(rng, L)}, "st"
		case "Remove":
			if i, ok := g.lkIdx(rng, o, L); ok {
				return Call{"op": "Remove", "i": i}, "st"
			}
		case "Index":
			return Call{"op": "Index", "i": g.anyIdx(rng, L)}, "st"
		case "Replace":
			if i, ok := g.rawIdx(rng, L); ok {
				return Call{"op": "Replace", "x": g.val(rng, g.mode == "all"), "i": i}, "st"
			}
		case "Swap":
			i, ok1 := g.rawIdx(rng, L)
			j, ok2 := g.rawIdx(rng, L)
			if ok1 && ok2 {
				return Call{"op": "Swap", "i": i, "j": j}, "st"
			}
		case "SetFIFO":
			return Call{"op": "SetFIFO", "b": rng.Intn(3) == 0}, "st"
		case "SetOpt":
			return Call{"op": "SetOpt", "f": []string{"paren", "fold", "nspad", "lonce", "neg", "fwd", "ronly", "nnest"}[rng.Intn(8)],
				"m": []string{"on", "off", "toggle"}[rng.Intn(3)], "dep": rng.Intn(3) == 0}, "st"
		case "SetIdxOpt":
			return Call{"op": "SetOpt", "f": idxFlags[rng.Intn(2)], "m": []string{"on", "off", "toggle"}[rng.Intn(3)]}, "st"
		case "SetErr":
			return Call{"op": "SetErr", "on": rng.Intn(2) == 0}, "st"
		case "SetPushPolicy":
			if rng.Intn(3) == 0 {
				return Call{"op": "SetPushPolicy", "on": false, "acc": []any{}}, "st"
			}
			acc := []any{}
			if rng.Intn(2) == 0 {
				acc = append(acc, "nil")
			}
			for i := 0; i < g.nvals; i++ {
				if rng.Intn(3) != 0 {
					acc = append(acc, fmt.Sprintf("v%d", i))
				}
			}
			return Call{"op": "SetPushPolicy", "on": true, "acc": acc}, "st"
		case "Transfer":
			return Call{"op": "Transfer", "form": []string{"native", "alias", "ptr", "foreign"}[rng.Intn(4)],
				"dir": []string{"fwd", "back"}[rng.Intn(2)]}, "st"
		case "DstPush":
			if d.S.Len()+2 > g.maxLen {
				continue
			}
			return Call{"op": "Push", "xs": []any{g.val(rng, true), g.val(rng, true)}}, "dst"
		case "DstPop":
			return Call{"op": "Pop"}, "dst"
		case "DstRonly":
			return Call{"op": "SetOpt", "f": "ronly", "m": "toggle"}, "dst"
		case "DstNnest":
			return Call{"op": "SetOpt", "f": "nnest", "m": "toggle"}, "dst"
		case "SetLogLevel", "UnsetLogLevel":
			n := 1 + rng.Intn(3)
			args := []any{}
			for i := 0; i < n; i++ {
				r := rng.Intn(12)
				switch {
				case r == 0:
					args = append(args, map[string]any{"bits": []any{}, "none": true, "all": false, "form": []string{"name", "int", "const"}[rng.Intn(3)]})
				case r == 1 && op == "SetLogLevel":
					args = append(args, map[string]any{"bits": []any{}, "none": false, "all": true, "form": []string{"name", "int", "const"}[rng.Intn(3)]})
				case r < 8:
					args = append(args, map[string]any{"bits": []any{1 + rng.Intn(16)}, "none": false, "all": false, "form": []string{"name", "const"}[rng.Intn(2)]})
				default:
					bits := []any{}
					for b := 1; b <= 16; b++ {
						if rng.Intn(5) == 0 {
							bits = append(bits, b)
						}
					}
					if len(bits) == 0 || len(bits) == 16 {
						bits = []any{2, 5}
					}
					args = append(args, map[string]any{"bits": bits, "none": false, "all": false, "form": "int"})
				}
			}
			return Call{"op": op, "args": args}, "st"
		case "SetValidityPolicy":
			return Call{"op": "SetValidityPolicy", "mode": []string{"none", "ok", "bad"}[rng.Intn(3)]}, "st"
		case "SetClosure":
			return Call{"op": []string{"SetPresentationPolicy", "SetEqualityPolicy", "SetUnmarshaler", "SetMarshaler", "SetLessFunc"}[rng.Intn(5)], "on": rng.Intn(2) == 0}, "st"
		case "Marshal":
			if L+1 > g.maxLen {
				continue
			}
			n := rng.Intn(3)
			xs := []any{}
			for i := 0; i < n; i++ {
				xs = append(xs, g.val(rng, true))
			}
			if o.S.IsInit() && rng.Intn(4) == 0 { // a CONDITION row into an initialised receiver
				return Call{"op": "Marshal", "kind": "CONDITION", "xs": []any{"k", "v"}}, "st"
			}
			return Call{"op": "Marshal", "kind": allKinds[rng.Intn(5)], "xs": xs}, "st"
		case "SetAuxiliary":
			return Call{"op": "SetAuxiliary", "form": []string{"none", "nil", "map", "map0"}[rng.Intn(4)]}, "st"
		case "SetLogger":
			return Call{"op": "SetLogger", "arg": []string{"stdout", "STDOUT", "int1", "stderr", "StdErr", "int2", "custom", "off", "discard", "int0", "nil", "junk", "int7"}[rng.Intn(13)]}, "st"
		case "SetID":
			return Call{"op": "SetID", "v": []string{"", "x", "some id", "Y_1", "_random", "_RANDOM", "_addr", "_Xy"}[rng.Intn(8)]}, "st"
		case "SetCategory":
			return Call{"op": "SetCategory", "v": []string{"", "k", "cat two"}[rng.Intn(3)]}, "st"
		case "SetDelimiter":
			f := []string{"str", "str", "rune", "nil", "int"}[rng.Intn(5)]
			v := ""
			if f == "str" {
				v = []string{"", ",", "; ", "|"}[rng.Intn(4)]
			} else if f == "rune" {
				v = []string{",", ";"}[rng.Intn(2)]
			}
			return Call{"op": "SetDelimiter", "form": f, "v": v}, "st"
		case "SetSymbol":
			n := rng.Intn(3)
			parts := []any{}
			for i := 0; i < n; i++ {
				f := []string{"str", "rune", "int"}[rng.Intn(3)]
				v := ""
				if f != "int" {
					v = []string{"&", "|", "!", "X"}[rng.Intn(4)]
				}
				parts = append(parts, map[string]any{"form": f, "v": v})
			}
			return Call{"op": "SetSymbol", "parts": parts}, "st"
		case "SetEncap":
			n := rng.Intn(3)
			pairs := []any{}
			for i := 0; i < n; i++ {
				chars := []string{"\"", "<", ">", "(", ")", "'", "[", "]"}
				if rng.Intn(2) == 0 {
					pairs = append(pairs, []any{chars[rng.Intn(len(chars))]})
				} else {
					pairs = append(pairs, []any{chars[rng.Intn(len(chars))], chars[rng.Intn(len(chars))]})
				}
			}
			return Call{"op": "SetEncap", "pairs": pairs}, "st"
		}
	}
	return Call{"op": "Front"}, "st"
}

func stackageDumpOpt(o *Obj) (opt int) {
	defer func() { _ = recover() }()
	ob := Observe(o.S)
	for i, b := range ob.Bits {
		if b == "true" {
			opt |= flagBits[i]
		}
	}
	return
}

func normCall(c Call) Call {
	// round-trip through JSON so that Apply sees what the spec will see
	j, _ := json.Marshal(c)
	var out Call
	_ = json.Unmarshal(j, &out)
	return out
}

func cmdTraceGen(args []string) {
	fs := flag.NewFlagSet("tracegen", flag.ExitOnError)
	out := fs.String("out", "", "output ndjson")
	seed := fs.Int64("seed", 1, "seed")
	traces := fs.Int("traces", 100, "number of histories")
	length := fs.Int("len", 60, "calls per history")
	fams := fs.String("fams", "list", "call families")
	mode := fs.String("mode", "existing", "index mode: existing | all")
	nvals := fs.Int("nvals", 20, "number of distinct leaf values")
	maxLen := fs.Int("maxlen", 14, "maximum length driven to")
	nest := fs.Bool("nest", false, "offer Stack / alias / Condition values")
	caps := fs.String("caps", "0,0,1,2,3,5,8", "capacities drawn from")
	_ = fs.Parse(args)
	g := &genCfg{fams: map[string]bool{}, mode: *mode, nvals: *nvals, maxLen: *maxLen, nest: *nest}
	for _, f := range strings.Split(*fams, ",") {
		g.fams[strings.TrimSpace(f)] = true
	}
	var capList []int
	for _, c := range strings.Split(*caps, ",") {
		var n int
		fmt.Sscanf(strings.TrimSpace(c), "%d", &n)
		capList = append(capList, n)
	}
	f, err := os.Create(*out)
	if err != nil {
		die(2, "%v", err)
	}
	defer f.Close()
	w := bufio.NewWriterSize(f, 1<<20)
	defer w.Flush()
	enc := json.NewEncoder(w)
	rng := rand.New(rand.NewSource(*seed))
	events := 0
	for t := 0; t < *traces; t++ {
		init := AState{Live: true, Kind: allKinds[rng.Intn(len(allKinds))], Cap: capList[rng.Intn(len(capList))], Err: "none"}
		for _, fl := range idxFlags {
			if rng.Intn(2) == 0 {
				init.Opts = append(init.Opts, fl)
			}
		}
		if rng.Intn(4) == 0 {
			init.Mtx = true
		}
		if g.fams["life"] && rng.Intn(10) == 0 {
			init = AState{Live: false, Kind: "NONE", Err: "none"}
		}
		init = init.Canon()
		dinit := AState{Live: false, Kind: "NONE", Err: "none"}.Canon()
		if g.fams["transfer"] {
			dinit = AState{Live: true, Kind: allKinds[rng.Intn(len(allKinds))], Cap: capList[rng.Intn(len(capList))], Err: "none"}.Canon()
		}
		o, d := Build(init), Build(dinit)
		_ = enc.Encode(TraceLine{Ev: "reset", St: &init, Dst: &dinit, Ret: []string{}})
		for n := 0; n < *length; n++ {
			c, on := g.pick(rng, o, d)
			c = normCall(c)
			var ret []string
			if on == "dst" {
				ret = Apply(d, o, c)
			} else {
				ret = Apply(o, d, c)
			}
			ob, dob := Observe(o.S), Observe(d.S)
			_ = enc.Encode(TraceLine{Ev: "call", On: on, C: c, Ret: ret, Obs: &ob, DObs: &dob})
			events++
			if len(ret) > 0 && (ret[0] == "PANIC" || ret[0] == "DEADLOCK") {
				break // the object may be unusable; start a new history
			}
		}
	}
	fmt.Printf("{\"traces\": %d, \"events\": %d}\n", *traces, events)
}

func init() { commands["tracegen"] = cmdTraceGen }
