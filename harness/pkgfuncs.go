package main

// pkgfuncs.go: package-level functions and the Auxiliary type (C17 / C08).
// Go offers no reflection over package-level functions, so the exported
// functions are enumerated by parsing the package's source (go/parser) and
// matched against the call table below; a function that is exported but not
// in the table is reported as "unmodelled" in the evidence (not a verdict).

import (
	"go/ast"
	"go/parser"
	"go/token"
	"os"
	"path/filepath"
	"reflect"
	"sort"
	"strings"

	stackage "github.com/JesseCoretta/go-stackage"
)

var pkgFuncTable = map[string]any{
	"And": stackage.And, "Or": stackage.Or, "Not": stackage.Not, "List": stackage.List, "Basic": stackage.Basic,
	"Cond": stackage.Cond, "ConvertStack": stackage.ConvertStack, "ConvertCondition": stackage.ConvertCondition,
	"SetDefaultStackLogger": stackage.SetDefaultStackLogger, "SetDefaultConditionLogger": stackage.SetDefaultConditionLogger,
	"SetDefaultStackLogLevel": stackage.SetDefaultStackLogLevel, "SetDefaultConditionLogLevel": stackage.SetDefaultConditionLogLevel,
	"DefaultStackLogLevel": stackage.DefaultStackLogLevel, "DefaultConditionLogLevel": stackage.DefaultConditionLogLevel,
	"VerifDump": nil, // verification hook, not part of the API
}

func repoDir() string {
	if d := os.Getenv("VERIF_REPO"); d != "" {
		return d
	}
	return "/repo"
}

// exportedPkgFuncs parses the non-test sources of the package.
func exportedPkgFuncs() []string {
	var out []string
	files, _ := filepath.Glob(filepath.Join(repoDir(), "*.go"))
	fset := token.NewFileSet()
	for _, f := range files {
		if strings.HasSuffix(f, "_test.go") {
			continue
		}
		af, err := parser.ParseFile(fset, f, nil, 0)
		if err != nil {
			continue
		}
		for _, d := range af.Decls {
			if fd, ok := d.(*ast.FuncDecl); ok && fd.Recv == nil && fd.Name.IsExported() {
				out = append(out, fd.Name.Name)
			}
		}
	}
	sort.Strings(out)
	return out
}

// sweepPkgFuncs calls every package-level function with plain and awkward
// arguments and every Auxiliary method on nil and live maps; events use mode
// "pkg" (rule: no panic; restores the package defaults afterwards).
func (sw *sweeper) sweepPkgFuncs(limit int) (unmodelled []string) {
	defer func() {
		stackage.SetDefaultStackLogger(nil)
		stackage.SetDefaultConditionLogger(nil)
		stackage.SetDefaultStackLogLevel(stackage.NoLogLevels)
		stackage.SetDefaultConditionLogLevel(stackage.NoLogLevels)
	}()
	anys := append(plainAnys(), awkwardCatalogue()...)
	for _, name := range exportedPkgFuncs() {
		fn, known := pkgFuncTable[name]
		if !known {
			unmodelled = append(unmodelled, "func "+name)
			continue
		}
		if fn == nil {
			continue
		}
		fv := reflect.ValueOf(fn)
		for _, as := range argSets(fv.Type(), anys, limit) {
			if strings.Contains(as.desc, "max") {
				// a capacity of MaxInt asks the runtime to reserve an impossible slice:
				// outside every property's domain (Go itself panics in make)
				continue
			}
			ev := SweepEvent{Ev: "call", Mode: "pkg", Recv: "package", Typ: "func", Method: name, Args: as.desc,
				PreLive: "false", PostLive: "false", PreRO: "false", PostRO: "false", NonZero: []string{}, ErrRes: "false", Again: "n/a", Health: "ok"}
			func() {
				defer func() {
					if r := recover(); r != nil {
						ev.Panic = sprint(r)
					}
				}()
				res := fv.Call(as.vals)
				// whatever was constructed must be usable
				for _, r := range res {
					if h := health(r.Interface()); h != "ok" {
						ev.Health = h
					}
				}
			}()
			_ = sw.enc.Encode(SweepEvent{Ev: "reset", Mode: "pkg", Recv: "package", Typ: "func", NonZero: []string{}})
			_ = sw.enc.Encode(ev)
			sw.events++
			sw.methods["func."+name] = true
		}
	}
	// Auxiliary: nil and live maps
	for _, mk := range []struct {
		name string
		f    func() stackage.Auxiliary
	}{{"aux-nil", func() stackage.Auxiliary { return nil }}, {"aux-live", func() stackage.Auxiliary { return stackage.Auxiliary{"k": 1} }}} {
		a := mk.f()
		t := reflect.TypeOf(a)
		for i := 0; i < t.NumMethod(); i++ {
			m := t.Method(i)
			for _, as := range argSets(methodType(m), anys, limit) {
				ev := SweepEvent{Ev: "call", Mode: "pkg", Recv: mk.name, Typ: "Auxiliary", Method: m.Name, Args: as.desc,
					PreLive: "false", PostLive: "false", PreRO: "false", PostRO: "false", NonZero: []string{}, ErrRes: "false", Again: "n/a", Health: "ok"}
				func() {
					defer func() {
						if r := recover(); r != nil {
							ev.Panic = sprint(r)
						}
					}()
					reflect.ValueOf(mk.f()).Method(i).Call(as.vals)
				}()
				_ = sw.enc.Encode(SweepEvent{Ev: "reset", Mode: "pkg", Recv: mk.name, Typ: "Auxiliary", NonZero: []string{}})
				_ = sw.enc.Encode(ev)
				sw.events++
				sw.methods["Auxiliary."+m.Name] = true
			}
		}
	}
	return
}

func sprint(x any) string {
	s := strings.TrimSpace(strings.ReplaceAll(reflectString(x), "\n", " "))
	if s == "" {
		return "panic"
	}
	return s
}

func reflectString(x any) string {
	if e, ok := x.(error); ok {
		return e.Error()
	}
	if s, ok := x.(string); ok {
		return s
	}
	return reflect.ValueOf(x).String()
}
