package main

// core.go: the binding between the abstract values / states / calls of
// spec/ListOps.tla and the real go-stackage package.  Concretiser and
// projector are data-driven tables; they contain no model of the package.

import (
	"encoding/json"
	"errors"
	"fmt"
	"io"
	"log"
	"math"
	"os"
	"reflect"
	"regexp"
	"runtime"
	"sort"
	"strconv"
	"strings"
	"sync"
	"time"

	stackage "github.com/JesseCoretta/go-stackage"
)

// ---- alias types (C12) ------------------------------------------------

type AStack stackage.Stack // alias without a String method
type WStack stackage.Stack // alias with the README's wrapper String method
func (r WStack) String() string { return stackage.Stack(r).String() }

type XStack stackage.Stack // alias whose own String method returns unrelated text
func (r XStack) String() string { return "<<custom stack stringer>>" }

type XCond stackage.Condition
func (r XCond) String() string { return "<<custom condition stringer>>" }

type ACond stackage.Condition
type WCond stackage.Condition
func (r WCond) String() string { return stackage.Condition(r).String() }

var randomIDShape = regexp.MustCompile(`^[A-Z0-9]{24}$`)

var errPolicy = errors.New("policy: rejected")
var errUser = errors.New("user error")

// ---- values -----------------------------------------------------------

// Conc builds a fresh Go value for an abstract value name.
func Conc(v string) any {
	switch v {
	case "nil":
		return nil
	case "S":
		return stackage.And().Push("in")
	case "Z":
		return stackage.And()
	case "A":
		return AStack(stackage.And().Push("in"))
	case "P":
		a := AStack(stackage.And().Push("in"))
		return &a
	case "C":
		return stackage.Cond("k", stackage.Eq, "v")
	case "CS": // a Condition HOLDING a Stack: not a Stack itself (no-nesting lets it in, IsNesting of the parent ignores it)
		return stackage.Cond("k", stackage.Eq, stackage.And().Push("in"))
	}
	return v
}

// Proj maps a Go value back to its abstract name.
func Proj(x any) string {
	switch tv := x.(type) {
	case nil:
		return "nil"
	case string:
		return tv
	case stackage.Stack:
		if tv.Len() == 0 || tv.Kind() == "BASIC" {
			return "Z"
		}
		return "S"
	case AStack, WStack, XStack:
		return "A"
	case *AStack, *WStack, *XStack:
		return "P"
	case stackage.Condition:
		if _, ok := stackage.ConvertStack(tv.Expression()); ok {
			return "CS"
		}
		return "C"
	}
	return "?" + fmt.Sprintf("%T", x)
}

func b2s(b bool) string {
	if b {
		return "true"
	}
	return "false"
}

// ---- abstract state ---------------------------------------------------

type AState struct {
	Live   bool       `json:"live"`
	Kind   string     `json:"kind"`
	Cap    int        `json:"cap"`
	Fifo   bool       `json:"fifo"`
	Opts   []string   `json:"opts"`
	E      []string   `json:"e"`
	Err    string     `json:"err"`
	HasPol bool       `json:"haspol"`
	Acc    []string   `json:"acc"`
	Mtx    bool       `json:"mtx"`
	ID     string     `json:"id"`
	Cat    string     `json:"cat"`
	Delim  string     `json:"delim"`
	Sym    string     `json:"sym"`
	Enc    [][]string `json:"enc"`
	VPol   string     `json:"vpol"`
	PPol   bool       `json:"ppol"`
	EPol   bool       `json:"epol"`
	LPol   bool       `json:"lpol"`
	UPol   bool       `json:"upol"`
	MPol   bool       `json:"mpol"`
	Lvl    []int      `json:"lvl"`
	Aux    string     `json:"aux"`
	Logger string     `json:"logger"`
}

var givenAux = stackage.Auxiliary{"k": 1}
var givenAux0 = stackage.Auxiliary{} // the caller's own map, allocated but still empty: kept by reference all the same
var customLogger = log.New(io.Discard, "custom", 0)

func setLoggerArg(s stackage.Stack, arg string) {
	switch arg {
	case "int0":
		s.SetLogger(0)
	case "int1":
		s.SetLogger(1)
	case "int2":
		s.SetLogger(2)
	case "int7":
		s.SetLogger(7)
	case "custom":
		s.SetLogger(customLogger)
	case "nil":
		s.SetLogger(nil)
	default:
		s.SetLogger(arg)
	}
}

var lvlNames = []string{"CALLS", "POLICY", "STATE", "DEBUG", "ERROR", "TRACE", "USER1", "USER2", "USER3", "USER4", "USER5", "USER6", "USER7", "USER8", "USER9", "USER10"}

// lvlArgs turns the spec's log-level arguments into Go values: a name (in
// varying case), a LogLevel constant or a raw integer.
func lvlArgs(c Call, n *int) []any {
	var out []any
	l, _ := c["args"].([]any)
	for _, a := range l {
		m, _ := a.(map[string]any)
		form, _ := m["form"].(string)
		bits := 0
		if bl, ok := m["bits"].([]any); ok {
			for _, b := range bl {
				if f, ok := b.(float64); ok {
					bits |= 1 << (int(f) - 1)
				}
			}
		}
		none, _ := m["none"].(bool)
		all, _ := m["all"].(bool)
		*n++
		switch {
		case none && form == "name":
			out = append(out, []string{"none", "NONE", "None"}[*n%3])
		case none && form == "int":
			out = append(out, 0)
		case none:
			out = append(out, stackage.NoLogLevels)
		case all && form == "name":
			out = append(out, []string{"all", "ALL"}[*n%2])
		case all && form == "int":
			out = append(out, 65535)
		case all:
			out = append(out, stackage.AllLogLevels)
		case form == "name":
			name := ""
			for i := 0; i < 16; i++ {
				if bits == 1<<i {
					name = lvlNames[i]
				}
			}
			if *n%2 == 0 {
				name = strings.ToLower(name)
			}
			out = append(out, name)
		case form == "const":
			out = append(out, stackage.LogLevel(bits))
		default:
			out = append(out, bits)
		}
	}
	return out
}

var errClosure = errors.New("closure verdict")

func setStackVPol(s stackage.Stack, mode string) {
	switch mode {
	case "ok":
		s.SetValidityPolicy(func(...any) error { return nil })
	case "bad":
		s.SetValidityPolicy(func(...any) error { return errClosure })
	default:
		s.SetValidityPolicy(nil)
	}
}

func setStackClosure(s stackage.Stack, op string, on bool, alt bool) {
	switch op {
	case "SetPresentationPolicy":
		if on {
			s.SetPresentationPolicy(func(...any) string { return "<<closure>>" })
		} else {
			s.SetPresentationPolicy(nil)
		}
	case "SetEqualityPolicy":
		if on {
			s.SetEqualityPolicy(func(any, any) error { return errClosure })
		} else if alt {
			s.SetEqualityPolicy()
		} else {
			s.SetEqualityPolicy(nil)
		}
	case "SetLessFunc":
		if on {
			s.SetLessFunc(func(i, j int) bool { return i > j })
		} else if alt {
			s.SetLessFunc()
		} else {
			s.SetLessFunc(nil)
		}
	case "SetUnmarshaler":
		if on {
			s.SetUnmarshaler(func(...any) ([]any, error) { return []any{"<<closure>>"}, nil })
		} else if alt {
			s.SetUnmarshaler()
		} else {
			s.SetUnmarshaler(nil)
		}
	case "SetMarshaler":
		if on {
			s.SetMarshaler(func(...any) error { return errClosure })
		} else if alt {
			s.SetMarshaler()
		} else {
			s.SetMarshaler(nil)
		}
	}
}

func (a AState) Canon() AState {
	b := a
	b.Opts = append([]string{}, a.Opts...)
	sort.Strings(b.Opts)
	b.Acc = append([]string{}, a.Acc...)
	sort.Strings(b.Acc)
	if b.E == nil {
		b.E = []string{}
	}
	if b.Enc == nil {
		b.Enc = [][]string{}
	}
	if b.VPol == "" {
		b.VPol = "none"
	}
	if b.Lvl == nil {
		b.Lvl = []int{}
	}
	if b.Aux == "" {
		b.Aux = "none"
	}
	if b.Logger == "" {
		b.Logger = "devnull"
	}
	return b
}

func (a AState) Key() string {
	j, _ := json.Marshal(a.Canon())
	return string(j)
}

// ApplyDelta overlays the changed fields (a JSON object, or [] for none).
func (a AState) ApplyDelta(d json.RawMessage) (AState, error) {
	b := a.Canon()
	t := strings.TrimSpace(string(d))
	if t == "" || t == "[]" || t == "null" {
		return b, nil
	}
	// fields present in d replace those of b
	cur, _ := json.Marshal(b)
	var m map[string]json.RawMessage
	if err := json.Unmarshal(cur, &m); err != nil {
		return b, err
	}
	var dm map[string]json.RawMessage
	if err := json.Unmarshal(d, &dm); err != nil {
		return b, err
	}
	for k, v := range dm {
		m[k] = v
	}
	j, _ := json.Marshal(m)
	var out AState
	if err := json.Unmarshal(j, &out); err != nil {
		return b, err
	}
	return out.Canon(), nil
}

// ---- the real object --------------------------------------------------

type Obj struct {
	n   int  // counter used to vary argument spellings
	alt bool // alternate between the "no argument" and "nil" ways of removing a closure
	concurrent bool // several goroutines call into this object (gated / free-running drivers)
	S   stackage.Stack
	acc map[string]bool
	// consult logs of the calls in flight, one per calling goroutine (the policy closure runs in the goroutine that called Push,
	// so concurrent callers never see each other's consultations)
	lmu  sync.Mutex
	logs map[int64][]string
	lens map[int64][]int // Len() of the stack at each consultation
}

// goid: the id of the calling goroutine (parsed from the stack header; only used to key the consult logs)
func goid() int64 {
	var buf [64]byte
	n := runtime.Stack(buf[:], false)
	f := strings.Fields(string(buf[:n]))
	if len(f) < 2 {
		return 0
	}
	id, _ := strconv.ParseInt(f[1], 10, 64)
	return id
}

func (o *Obj) logReset() {
	o.lmu.Lock()
	if o.logs == nil {
		o.logs = map[int64][]string{}
	}
	delete(o.logs, goid())
	if o.lens != nil {
		delete(o.lens, goid())
	}
	o.lmu.Unlock()
}

func (o *Obj) logAdd(v string) {
	o.lmu.Lock()
	if o.logs == nil {
		o.logs = map[int64][]string{}
	}
	g := goid()
	o.logs[g] = append(o.logs[g], v)
	o.lmu.Unlock()
}

func (o *Obj) lenAdd(n int) {
	o.lmu.Lock()
	if o.lens == nil {
		o.lens = map[int64][]int{}
	}
	g := goid()
	o.lens[g] = append(o.lens[g], n)
	o.lmu.Unlock()
}

func (o *Obj) lensGet() []int {
	o.lmu.Lock()
	defer o.lmu.Unlock()
	return append([]int{}, o.lens[goid()]...)
}

func (o *Obj) logGet() []string {
	o.lmu.Lock()
	defer o.lmu.Unlock()
	return append([]string{}, o.logs[goid()]...)
}

func NewKind(kind string, cap int) stackage.Stack {
	var c []int
	if cap > 0 {
		c = []int{cap}
	}
	switch kind {
	case "AND":
		return stackage.And(c...)
	case "OR":
		return stackage.Or(c...)
	case "NOT":
		return stackage.Not(c...)
	case "LIST":
		return stackage.List(c...)
	case "BASIC":
		return stackage.Basic(c...)
	}
	return stackage.Stack{}
}

func (o *Obj) installPolicy(acc []string) {
	// the closure owns its accept-set: if the library refuses the installation
	// (read-only stack) the previously installed closure must keep ITS meaning
	mine := map[string]bool{}
	for _, a := range acc {
		mine[a] = true
	}
	o.acc = mine
	o.S.SetPushPolicy(func(x ...any) error {
		v := "nil"
		if len(x) > 0 {
			v = Proj(x[0])
		}
		o.logAdd(v)
		// what the stack holds WHILE the value is being judged (it is not in there yet), and this closure's verdict
		if mine[v] {
			o.lenAdd(o.S.Len()*2 + 1)
		} else {
			o.lenAdd(o.S.Len() * 2)
		}
		if mine[v] {
			return nil
		}
		return errPolicy
	})
}

func setOpt(s stackage.Stack, f, m string, dep ...bool) {
	var arg []bool
	switch m {
	case "on":
		arg = []bool{true}
	case "off":
		arg = []bool{false}
	}
	if len(dep) > 0 && dep[0] {
		// the deprecated alias spellings
		switch f {
		case "paren":
			s.Paren(arg...)
		case "fold":
			s.Fold(arg...)
		case "nspad":
			s.NoPadding(arg...)
		case "lonce":
			s.LeadOnce(arg...)
		case "neg":
			s.NegativeIndices(arg...)
		case "fwd":
			s.ForwardIndices(arg...)
		case "ronly":
			s.ReadOnly(arg...)
		case "nnest":
			s.NoNesting(arg...)
		default:
			panic("unknown flag " + f)
		}
		return
	}
	switch f {
	case "paren":
		s.SetParen(arg...)
	case "fold":
		s.SetFold(arg...)
	case "nspad":
		s.SetNoPadding(arg...)
	case "lonce":
		s.SetLeadOnce(arg...)
	case "neg":
		s.SetNegativeIndices(arg...)
	case "fwd":
		s.SetForwardIndices(arg...)
	case "ronly":
		s.SetReadOnly(arg...)
	case "nnest":
		s.SetNoNesting(arg...)
	default:
		panic("unknown flag " + f)
	}
}

func encArgs(pairs [][]string) []any {
	var out []any
	for _, p := range pairs {
		out = append(out, append([]string{}, p...))
	}
	return out
}

// Build constructs, through the public API only, a real Stack in the given
// abstract state.
func Build(a AState) *Obj {
	o := &Obj{}
	if !a.Live {
		return o
	}
	o.S = NewKind(a.Kind, a.Cap)
	var xs []any
	for _, v := range a.E {
		xs = append(xs, Conc(v))
	}
	if len(xs) > 0 {
		o.S.Push(xs...)
	}
	if a.Fifo {
		o.S.SetFIFO(true)
	}
	if a.Mtx {
		o.S.SetMutex()
	}
	if a.ID == "<random24>" {
		o.S.SetID("_random")
	} else if a.ID == "<addr>" {
		o.S.SetID("_addr")
	} else if a.ID != "" {
		o.S.SetID(a.ID)
	}
	if a.Cat != "" {
		o.S.SetCategory(a.Cat)
	}
	if a.Delim != "" {
		o.S.SetDelimiter(a.Delim)
	}
	if a.Sym != "" {
		o.S.SetSymbol(a.Sym)
	}
	if len(a.Enc) > 0 {
		o.S.SetEncap(encArgs(a.Enc)...)
	}
	if a.HasPol {
		o.installPolicy(a.Acc)
	}
	switch a.Aux {
	case "empty":
		o.S.SetAuxiliary()
	case "given":
		o.S.SetAuxiliary(givenAux)
	case "given0":
		o.S.SetAuxiliary(givenAux0)
	}
	switch a.Logger {
	case "stdout", "stderr", "custom":
		setLoggerArg(o.S, a.Logger)
	}
	if len(a.Lvl) > 0 {
		bits := 0
		for _, b := range a.Lvl {
			bits |= 1 << (b - 1)
		}
		if bits == 65535 {
			o.S.SetLogLevel(stackage.AllLogLevels)
		} else {
			o.S.SetLogLevel(stackage.LogLevel(bits))
		}
	}
	if a.VPol != "" && a.VPol != "none" {
		setStackVPol(o.S, a.VPol)
	}
	if a.PPol {
		setStackClosure(o.S, "SetPresentationPolicy", true, false)
	}
	if a.EPol {
		setStackClosure(o.S, "SetEqualityPolicy", true, false)
	}
	if a.LPol {
		setStackClosure(o.S, "SetLessFunc", true, false)
	}
	if a.UPol {
		setStackClosure(o.S, "SetUnmarshaler", true, false)
	}
	if a.MPol {
		setStackClosure(o.S, "SetMarshaler", true, false)
	}
	switch a.Err {
	case "user", "set":
		o.S.SetErr(errUser)
	case "policy":
		o.S.SetErr(errPolicy)
	case "lib":
		o.S.SetErr(errors.New("library error"))
	}
	ro := false
	for _, f := range a.Opts {
		if f == "ronly" {
			ro = true
			continue
		}
		setOpt(o.S, f, "on")
	}
	if ro {
		setOpt(o.S, "ronly", "on")
	}
	return o
}

// ---- calls ------------------------------------------------------------

type Call map[string]any

func (c Call) Op() string { s, _ := c["op"].(string); return s }
func (c Call) Str(k string) string {
	s, _ := c[k].(string)
	return s
}
func (c Call) Bool(k string) bool { b, _ := c[k].(bool); return b }
func (c Call) Int(k string) int {
	switch tv := c[k].(type) {
	case float64:
		return mapInt(int(tv))
	case int:
		return mapInt(tv)
	case json.Number:
		n, _ := tv.Int64()
		return mapInt(int(n))
	}
	return 0
}
func (c Call) Strs(k string) []string {
	var out []string
	if l, ok := c[k].([]any); ok {
		for _, x := range l {
			s, _ := x.(string)
			out = append(out, s)
		}
	}
	return out
}

// the spec's stand-ins for the extreme ints
func mapInt(i int) int {
	switch i {
	case -1000000:
		return math.MinInt
	case 1000000:
		return math.MaxInt
	}
	return i
}

func valret(v any, ok bool) []string { return []string{Proj(v), b2s(ok)} }

// Apply performs one call on the real object(s) and returns the projected
// return values.  A panic is reported as ret = ["PANIC", message].
func Apply(o, d *Obj, c Call) []string {
	mtx := false
	func() {
		defer func() { _ = recover() }()
		mtx = o.S.CanMutex() || (d != nil && d.S.CanMutex())
	}()
	if !mtx {
		return applyInner(o, d, c)
	}
	// mutex-enabled: a call that never returns is a deadlock, not a hang of the harness
	ch := make(chan []string, 1)
	go func() { ch <- applyInner(o, d, c) }()
	select {
	case r := <-ch:
		return r
	case <-time.After(time.Second):
		return []string{"DEADLOCK", "call did not return within 1s"}
	}
}

func applyInner(o, d *Obj, c Call) (ret []string) {
	ret = []string{}
	defer func() {
		if r := recover(); r != nil {
			ret = []string{"PANIC", fmt.Sprint(r)}
		}
	}()
	if o.acc != nil {
		o.logReset()
	}
	switch c.Op() {
	case "Push":
		var xs []any
		for _, v := range c.Strs("xs") {
			xs = append(xs, Conc(v))
		}
		// the batch is handed over as ONE slice with spare capacity, and compared afterwards: a call must leave its
		// caller's slice alone (a filter that compacts the batch in place would corrupt it)
		xs = append(make([]any, 0, len(xs)+2), xs...)
		names := make([]string, len(xs))
		for i, x := range xs {
			names[i] = Proj(x)
		}
		preLen := o.S.Len()
		o.S.Push(xs...)
		log := o.logGet()
		ret = append(ret, log...)
		// the policy judges a value BEFORE it is stored (ListOps!PushPol): at the i-th consultation the stack holds what it held
		// before the call plus the values approved so far.  Only meaningful when nobody else mutates the stack meanwhile.
		if lens := o.lensGet(); !o.concurrent && len(lens) == len(log) {
			want := preLen
			for i := range log {
				if lens[i]/2 != want {
					ret = append(ret, fmt.Sprintf("CONSULT-SAW-LEN[%d]:%d,expected:%d", i, lens[i]/2, want))
					break
				}
				if lens[i]%2 == 1 {
					want++
				}
			}
		}
		for i, x := range xs {
			if Proj(x) != names[i] {
				ret = append(ret, fmt.Sprintf("CALLER-SLICE-MODIFIED[%d]:%s->%s", i, names[i], Proj(x)))
			}
		}
	case "Pop":
		ret = valret(o.S.Pop())
	case "Insert":
		ret = []string{b2s(o.S.Insert(Conc(c.Str("x")), c.Int("i")))}
	case "Remove":
		ret = valret(o.S.Remove(c.Int("i")))
	case "Replace":
		ret = []string{b2s(o.S.Replace(Conc(c.Str("x")), c.Int("i")))}
	case "Swap":
		o.S.Swap(c.Int("i"), c.Int("j"))
	case "Reverse":
		o.S.Reverse()
	case "Reset":
		o.S.Reset()
	case "Defrag":
		if m := c.Int("m"); m == 0 {
			o.S.Defrag()
		} else {
			o.S.Defrag(m)
		}
	case "SetFIFO":
		o.S.SetFIFO(c.Bool("b"))
	case "SetOpt":
		setOpt(o.S, c.Str("f"), c.Str("m"), c.Bool("dep"))
	case "SetPushPolicy":
		if c.Bool("on") {
			o.installPolicy(c.Strs("acc"))
		} else {
			o.S.SetPushPolicy(nil)
		}
	case "SetMutex":
		if c.Bool("dep") {
			o.S.Mutex()
		} else {
			o.S.SetMutex()
		}
	case "SetErr":
		if c.Bool("on") {
			o.S.SetErr(errUser)
		} else {
			o.S.SetErr(nil)
		}
	case "Free":
		if err := o.S.Free(); err != nil {
			ret = []string{"err"}
		} else {
			ret = []string{"nil"}
		}
	case "Marshal":
		in := []any{c.Str("kind")}
		for _, v := range c.Strs("xs") {
			in = append(in, Conc(v))
		}
		if c.Str("kind") == "CONDITION" { // the row that decodes into Conc("C")
			in = []any{"CONDITION", "k", stackage.Eq, "v"}
		}
		// alternate between the two documented call forms
		var err error
		if len(in)%2 == 0 {
			err = o.S.Marshal(in...)
		} else {
			err = o.S.Marshal(in)
		}
		if errors.Is(err, errClosure) {
			ret = []string{"closure"}
		} else if err != nil {
			ret = []string{"err"}
		} else {
			ret = []string{"nil"}
		}
	case "SetAuxiliary":
		switch c.Str("form") {
		case "map":
			o.S.SetAuxiliary(givenAux)
		case "map0":
			o.S.SetAuxiliary(givenAux0)
		case "nil":
			o.S.SetAuxiliary(nil)
		default:
			o.S.SetAuxiliary()
		}
	case "SetLogger":
		setLoggerArg(o.S, c.Str("arg"))
	case "SetLogLevel":
		o.S.SetLogLevel(lvlArgs(c, &o.n)...)
	case "UnsetLogLevel":
		o.S.UnsetLogLevel(lvlArgs(c, &o.n)...)
	case "SetValidityPolicy":
		setStackVPol(o.S, c.Str("mode"))
	case "SetPresentationPolicy", "SetEqualityPolicy", "SetUnmarshaler", "SetMarshaler", "SetLessFunc":
		o.alt = !o.alt
		setStackClosure(o.S, c.Op(), c.Bool("on"), o.alt)
	case "SetID":
		o.S.SetID(c.Str("v"))
	case "SetCategory":
		o.S.SetCategory(c.Str("v"))
	case "SetDelimiter":
		switch c.Str("form") {
		case "str":
			o.S.SetDelimiter(c.Str("v"))
		case "rune":
			o.S.SetDelimiter([]rune(c.Str("v"))[0])
		case "nil":
			o.S.SetDelimiter(nil)
		default:
			o.S.SetDelimiter(42)
		}
	case "SetSymbol":
		var args []any
		if l, ok := c["parts"].([]any); ok {
			for _, p := range l {
				pm, _ := p.(map[string]any)
				f, _ := pm["form"].(string)
				v, _ := pm["v"].(string)
				switch f {
				case "str":
					args = append(args, v)
				case "rune":
					args = append(args, []rune(v)[0])
				default:
					args = append(args, 42)
				}
			}
		}
		if c.Bool("dep") {
			o.S.Symbol(args...)
		} else {
			o.S.SetSymbol(args...)
		}
	case "SetEncap":
		var args []any
		if l, ok := c["pairs"].([]any); ok {
			for _, p := range l {
				var pair []string
				if pl, ok := p.([]any); ok {
					for _, x := range pl {
						s, _ := x.(string)
						pair = append(pair, s)
					}
				}
				args = append(args, pair)
			}
		}
		if c.Bool("dep") {
			o.S.Encap(args...)
		} else {
			o.S.SetEncap(args...)
		}
	case "Index":
		ret = valret(o.S.Index(c.Int("i")))
	case "Front":
		ret = valret(o.S.Front())
	case "Back":
		ret = valret(o.S.Back())
	case "Transfer":
		src, dst := o, d
		if c.Str("dir") == "back" {
			src, dst = d, o
		}
		var arg any
		switch c.Str("form") {
		case "native":
			arg = dst.S
		case "alias":
			arg = AStack(dst.S)
		case "ptr":
			a := AStack(dst.S)
			arg = &a
		default:
			arg = struct{ X int }{1}
		}
		ret = []string{b2s(src.S.Transfer(arg))}
	default:
		panic("harness: unknown op " + c.Op())
	}
	return
}

// ---- observation ------------------------------------------------------

type Obs struct {
	Init    string     `json:"init"`
	Len     int        `json:"len"`
	Empty   string     `json:"empty"`
	Cap     int        `json:"cap"`
	Avail   int        `json:"avail"`
	Full    string     `json:"full"`
	Kind    string     `json:"kind"`
	Fifo    string     `json:"fifo"`
	Idx     [][]string `json:"idx"`
	Front   []string   `json:"front"`
	Back    []string   `json:"back"`
	Bits    []string   `json:"bits"`
	Ronly   string     `json:"ronly"`
	Paren   string     `json:"paren"`
	Padded  string     `json:"padded"`
	CanNest string     `json:"cannest"`
	Nesting string     `json:"nesting"`
	Err     string     `json:"err"`
	CanMtx  string     `json:"canmtx"`
	ID      string     `json:"id"`
	Cat     string     `json:"cat"`
	Delim   string     `json:"delim"`
	Sym     string     `json:"sym"`
	Enc     [][]string `json:"enc"`
	IsEnc   string     `json:"isenc"`
	Elems   []string   `json:"elems"`
	Integ   string     `json:"integ"`
	Locked  string     `json:"locked"`
	Valid   string     `json:"valid"`
	StrSrc  string     `json:"strsrc"`
	EqSrc   string     `json:"eqsrc"`
	UmSrc   string     `json:"umsrc"`
	LogLvls string     `json:"loglevels"`
	Aux     string     `json:"aux"`
	Logger  string     `json:"logger"`
	Less    []string   `json:"less"`
}

func safeS(f func() string) (s string) {
	defer func() {
		if r := recover(); r != nil {
			s = "PANIC:" + fmt.Sprint(r)
		}
	}()
	return f()
}
func safeI(f func() int) (i int) {
	defer func() {
		if r := recover(); r != nil {
			i = -999
		}
	}()
	return f()
}
func safeVR(f func() (any, bool)) (r []string) {
	defer func() {
		if p := recover(); p != nil {
			r = []string{"PANIC", fmt.Sprint(p)}
		}
	}()
	return valret(f())
}

var flagBits = []int{1, 2, 4, 8, 16, 32, 128, 256} // paren fold nspad lonce neg fwd ronly nnest

// Observe reads back everything the spec's Obs(s) describes.
func Observe(s stackage.Stack) Obs {
	var o Obs
	o.Integ = "ok"
	o.Locked = "false"
	o.Init = safeS(func() string { return b2s(s.IsInit()) })
	o.Len = safeI(s.Len)
	o.Empty = safeS(func() string { return b2s(s.IsEmpty()) })
	o.Cap = safeI(s.Cap)
	o.Avail = safeI(s.Avail)
	o.Full = safeS(func() string { return b2s(s.IsFull()) })
	o.Kind = safeS(s.Kind)
	o.Fifo = safeS(func() string { return b2s(s.IsFIFO()) })
	o.Idx = [][]string{}
	live := o.Init == "true"
	if live && o.Len >= 0 && o.Len < 1000 {
		for i := -(o.Len + 1); i <= o.Len+1; i++ {
			i := i
			o.Idx = append(o.Idx, safeVR(func() (any, bool) { return s.Index(i) }))
		}
	}
	o.Front = safeVR(s.Front)
	o.Back = safeVR(s.Back)
	o.Ronly = safeS(func() string { return b2s(s.IsReadOnly()) })
	o.Paren = safeS(func() string { return b2s(s.IsParen()) })
	o.Padded = safeS(func() string { return b2s(s.IsPadded()) })
	o.CanNest = safeS(func() string { return b2s(s.CanNest()) })
	o.Nesting = safeS(func() string { return b2s(s.IsNesting()) })
	o.Err = safeS(func() string {
		switch e := s.Err(); {
		case e == nil:
			return "none"
		case e == errUser:
			return "user"
		case e == errPolicy:
			return "policy"
		}
		return "lib"
	})
	o.CanMtx = safeS(func() string { return b2s(s.CanMutex()) })
	o.ID = safeS(func() string {
		id := s.ID()
		if randomIDShape.MatchString(id) {
			return "<random24>"
		}
		if live && id != "" && id == s.Addr() {
			return "<addr>"
		}
		return id
	})
	o.Cat = safeS(s.Category)
	o.Delim = safeS(s.Delimiter)
	o.IsEnc = safeS(func() string { return b2s(s.IsEncap()) })
	o.Valid = safeS(func() string {
		if s.Valid() != nil {
			return "err"
		}
		return "ok"
	})
	o.StrSrc = safeS(func() string {
		switch s.String() {
		case "":
			return "empty"
		case "<<closure>>":
			return "closure"
		}
		return "builtin"
	})
	o.LogLvls = safeS(s.LogLevels)
	o.Aux = safeS(func() string {
		a := s.Auxiliary()
		switch {
		case a == nil:
			return "none"
		case reflect.ValueOf(a).Pointer() == reflect.ValueOf(givenAux).Pointer():
			return "given"
		case reflect.ValueOf(a).Pointer() == reflect.ValueOf(givenAux0).Pointer():
			if len(a) != 0 {
				return "other"
			}
			return "given0"
		case len(a) == 0:
			return "empty"
		}
		return "other"
	})
	o.Logger = safeS(func() string {
		l := s.Logger()
		switch {
		case l == nil:
			return "none"
		case l == customLogger:
			return "custom"
		case l.Writer() == io.Discard:
			return "devnull"
		case l.Writer() == os.Stdout:
			return "stdout"
		case l.Writer() == os.Stderr:
			return "stderr"
		}
		return "other"
	})
	o.Less = []string{safeS(func() string { return b2s(s.Less(0, 1)) }), safeS(func() string { return b2s(s.Less(1, 0)) }), safeS(func() string { return b2s(s.Less(0, 0)) })}
	o.EqSrc, o.UmSrc = "none", "none"
	if live {
		o.EqSrc = safeS(func() string {
			if errors.Is(s.IsEqual(s), errClosure) {
				return "closure"
			}
			// no closure of its own: the verdict is the built-in one whatever the OTHER side carries -- a peer of another
			// kind and content whose own closure calls everything equal is still different
			peer := stackage.Basic().Push("peer-only", "peer-only-2", "peer-only-3")
			peer.SetEqualityPolicy(func(any, any) error { return nil })
			if s.IsEqual(peer) == nil {
				return "peer-closure"
			}
			return "builtin"
		})
		o.UmSrc = safeS(func() string {
			u, _ := s.Unmarshal()
			if len(u) == 1 && u[0] == "<<closure>>" {
				return "closure"
			}
			return "builtin"
		})
	}
	o.Bits = []string{}
	o.Enc = [][]string{}
	o.Elems = []string{}
	if live {
		func() {
			defer func() {
				if r := recover(); r != nil {
					o.Integ = "dump panic: " + fmt.Sprint(r)
				}
			}()
			d := stackage.VerifDump(s)
			cfg, _ := d["cfg"].(map[string]any)
			if d["slot0cfg"] != true {
				o.Integ = "slot 0 is not the configuration record"
				return
			}
			if n, _ := d["cfgslots"].(int); n != 0 {
				o.Integ = "configuration record among the elements"
			}
			if rl, _ := d["rawlen"].(int); rl != o.Len+1 {
				o.Integ = fmt.Sprintf("raw length %d vs Len %d", rl, o.Len)
			}
			if cfg["ldr"] == true || cfg["mtxlocked"] == true {
				o.Locked = "true"
			}
			opt, _ := cfg["opt"].(int)
			for _, b := range flagBits {
				o.Bits = append(o.Bits, b2s(opt&b != 0))
			}
			if extra := opt &^ (1 | 2 | 4 | 8 | 16 | 32 | 128 | 256); extra != 0 {
				o.Integ = fmt.Sprintf("unexpected option bits %d", extra)
			}
			o.Sym, _ = cfg["sym"].(string)
			if ljc, _ := cfg["ljc"].(string); ljc != o.Delim {
				o.Integ = "Delimiter() differs from the stored delimiter"
			}
			if enc, ok := cfg["enc"].([][]string); ok {
				for _, e := range enc {
					o.Enc = append(o.Enc, append([]string{}, e...))
				}
			}
			if sl, ok := d["slots"].([]any); ok {
				for _, x := range sl {
					o.Elems = append(o.Elems, Proj(x))
				}
			}
		}()
	}
	return o
}

// generic JSON form for comparison
func toGeneric(x any) any {
	j, err := json.Marshal(x)
	if err != nil {
		return fmt.Sprintf("marshal error: %v", err)
	}
	var g any
	_ = json.Unmarshal(j, &g)
	return g
}

// ObsFields, when non-nil, restricts the comparison to the observables the
// property under check talks about.
var ObsFields map[string]bool

// DiffObs lists the fields in which two generic observations differ.
func DiffObs(exp, got any) []string {
	em, _ := exp.(map[string]any)
	gm, _ := got.(map[string]any)
	var out []string
	keys := map[string]bool{}
	for k := range em {
		keys[k] = true
	}
	for k := range gm {
		keys[k] = true
	}
	for k := range keys {
		if ObsFields != nil && !ObsFields[k] {
			continue
		}
		if !reflect.DeepEqual(em[k], gm[k]) {
			ej, _ := json.Marshal(em[k])
			gj, _ := json.Marshal(gm[k])
			out = append(out, fmt.Sprintf("%s: expected %s observed %s", k, ej, gj))
		}
	}
	sort.Strings(out)
	return out
}
