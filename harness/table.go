package main

// table.go: spec -> code.  Loads the transition table TLC emitted from a
// state-machine module (Stackage.tla, CondMC.tla) and replays it into the
// real package: every single transition from a state built through the
// public API, every path up to a depth from every initial configuration,
// and seeded random walks.

import (
	"bufio"
	"encoding/json"
	"fmt"
	"math/rand"
	"os"
	"reflect"

	stackage "github.com/JesseCoretta/go-stackage"
)

type TTrans struct {
	C   Call            `json:"c"`
	On  string          `json:"on"`
	Ret []string        `json:"ret"`
	IB  bool            `json:"ib"`
	D   json.RawMessage `json:"d"`
	DD  json.RawMessage `json:"dd"`
}

type TState struct {
	St   json.RawMessage `json:"st"`
	Obs  any             `json:"obs"`
	Dst  json.RawMessage `json:"dst"`
	DObs any             `json:"dobs"`
	Init bool            `json:"init"`
	Tr   []TTrans        `json:"tr"`
}

type Table struct {
	States map[string]*TState
	Order  []string
	NTrans int
}

func pairKey(s, d json.RawMessage) string {
	if len(d) == 0 {
		return canonJSON(s)
	}
	return canonJSON(s) + "|" + canonJSON(d)
}

func LoadTable(path string) (*Table, error) {
	f, err := os.Open(path)
	if err != nil {
		return nil, err
	}
	defer f.Close()
	t := &Table{States: map[string]*TState{}}
	sc := bufio.NewScanner(f)
	sc.Buffer(make([]byte, 1<<20), 1<<28)
	ln := 0
	for sc.Scan() {
		ln++
		var ts TState
		if err := json.Unmarshal(sc.Bytes(), &ts); err != nil {
			return nil, fmt.Errorf("table line %d: %v", ln, err)
		}
		if ts.Tr == nil {
			ts.Tr = []TTrans{}
		}
		for i := range ts.Tr {
			if ts.Tr[i].Ret == nil {
				ts.Tr[i].Ret = []string{}
			}
		}
		k := pairKey(ts.St, ts.Dst)
		if _, dup := t.States[k]; dup {
			return nil, fmt.Errorf("table line %d: duplicate state", ln)
		}
		t.States[k] = &ts
		t.Order = append(t.Order, k)
		t.NTrans += len(ts.Tr)
	}
	return t, sc.Err()
}

// RStep describes one executed call with the spec's expectation.
type RStep struct {
	C       Call     `json:"c"`
	On      string   `json:"on"`
	ExpRet  []string `json:"exp_ret"`
	ExpObs  any      `json:"exp_obs,omitempty"`
	ExpDObs any      `json:"exp_dobs,omitempty"`
}

// Replay is a self-contained failing (or sample) case.
type Replay struct {
	Property string          `json:"property"`
	Machine  string          `json:"machine"`
	Kind     string          `json:"kind"` // ret | obs | panic | build
	Init     json.RawMessage `json:"init"`
	DInit    json.RawMessage `json:"dinit,omitempty"`
	Steps    []RStep         `json:"steps"`
	Detail   []string        `json:"detail"`
	Class    string          `json:"class"`
}

func RunReplay(r *Replay) (string, []string) {
	k, d, _ := RunReplayIdx(r)
	return k, d
}

// RunReplayIdx executes a replay record on fresh objects and reports the
// first disagreement (kind, detail, failing step) or "" if the real code
// agrees everywhere.
func RunReplayIdx(r *Replay) (string, []string, int) {
	m := machines[r.Machine]
	if m == nil {
		m = machines["stack"]
	}
	h := m.Build(r.Init, r.DInit)
	for i, st := range r.Steps {
		ret := m.Apply(h, st.On, st.C)
		if len(ret) > 0 && (ret[0] == "PANIC" || ret[0] == "DEADLOCK") && !(len(st.ExpRet) > 0 && st.ExpRet[0] == ret[0]) {
			return "panic", []string{fmt.Sprintf("step %d %v: %v", i, st.C, ret)}, i
		}
		if lk := m.LockLeft(h); lk != "" && (ObsFields == nil || ObsFields["locked"]) {
			return "obs", []string{fmt.Sprintf("step %d %v: %s", i, st.C, lk), "locked: expected \"false\" observed \"true\""}, i
		}
		if !reflect.DeepEqual(ret, st.ExpRet) {
			return "ret", []string{fmt.Sprintf("step %d %v: expected ret %v observed %v", i, st.C, st.ExpRet, ret)}, i
		}
		if st.ExpObs != nil || st.ExpDObs != nil {
			o, d := m.Observe(h)
			if st.ExpObs != nil {
				if df := DiffObs(st.ExpObs, o); len(df) > 0 {
					return "obs", append([]string{fmt.Sprintf("step %d %v", i, st.C)}, df...), i
				}
			}
			if st.ExpDObs != nil && len(r.DInit) > 0 {
				if df := DiffObs(st.ExpDObs, d); len(df) > 0 {
					return "obs", append([]string{fmt.Sprintf("step %d %v (destination)", i, st.C)}, df...), i
				}
			}
		}
	}
	return "", nil, -1
}

// lockLeft reports a mutex (or its bookkeeping) left held after a call returned.
func lockLeft(objs ...*Obj) (msg string) {
	defer func() { _ = recover() }()
	for _, o := range objs {
		if o == nil || o.S.IsZero() || !o.S.CanMutex() {
			continue
		}
		d := stackage.VerifDump(o.S)
		if cfg, ok := d["cfg"].(map[string]any); ok {
			if cfg["mtxlocked"] == true || cfg["ldr"] == true {
				return "the stack's mutex / lock bookkeeping is still held after the call returned"
			}
		}
	}
	return ""
}

type Replayer struct {
	T          *Table
	M          Machine
	Prop       string
	Out        *json.Encoder
	MaxReport  int
	Mismatches int
	Classes    map[string]int
	Steps      int
	Paths      int
	Samples    []Replay
}

func classOf(r *Replay) string {
	last := r.Steps[len(r.Steps)-1]
	return fmt.Sprintf("%s/%s/%s", r.Property, last.C.Op(), r.Kind)
}

func (rp *Replayer) report(r Replay) {
	rp.Mismatches++
	r.Class = classOf(&r)
	rp.Classes[r.Class]++
	if rp.Classes[r.Class] <= rp.MaxReport {
		_ = rp.Out.Encode(r)
	}
}

func (rp *Replayer) newReplay(init *TState, steps []RStep) Replay {
	return Replay{Property: rp.Prop, Machine: rp.M.Name(), Init: init.St, DInit: init.Dst, Steps: steps}
}

func (rp *Replayer) stepFor(ts *TState, tr *TTrans, withObs bool) (RStep, *TState, error) {
	ns, err := applyDelta(ts.St, tr.D)
	if err != nil {
		return RStep{}, nil, err
	}
	nd, err := applyDelta(ts.Dst, tr.DD)
	if err != nil {
		return RStep{}, nil, err
	}
	st := RStep{C: tr.C, On: tr.On, ExpRet: tr.Ret}
	var next *TState
	if tr.IB {
		next = rp.T.States[pairKey(ns, nd)]
		if next == nil {
			return st, nil, fmt.Errorf("successor state missing from table: %s", pairKey(ns, nd))
		}
		if withObs {
			st.ExpObs = next.Obs
			if len(nd) > 0 {
				st.ExpDObs = next.DObs
			}
		}
	}
	return st, next, nil
}

// Transitions replays every transition of the table once, from a state built
// through the public API.
func (rp *Replayer) Transitions() error {
	for _, k := range rp.T.Order {
		ts := rp.T.States[k]
		// the built state itself must show the expected observables
		o, _ := rp.M.Observe(rp.M.Build(ts.St, ts.Dst))
		if df := DiffObs(ts.Obs, o); len(df) > 0 {
			r0 := rp.newReplay(ts, []RStep{{C: Call{"op": "build"}, ExpRet: []string{}}})
			r0.Kind = "build"
			r0.Detail = df
			rp.report(r0)
			continue
		}
		for i := range ts.Tr {
			st, _, err := rp.stepFor(ts, &ts.Tr[i], true)
			if err != nil {
				return err
			}
			r := rp.newReplay(ts, []RStep{st})
			rp.Steps++
			if kind, det := RunReplay(&r); kind != "" {
				r.Kind, r.Detail = kind, det
				rp.report(r)
			} else if len(rp.Samples) < 3 && i%37 == 5 {
				rp.Samples = append(rp.Samples, r)
			}
		}
	}
	return nil
}

// PathsDepth replays every path of exactly the given depth from every initial
// state (prefixes are covered by the smaller depths); only the last step is
// compared in full, earlier steps were compared as shorter paths.
func (rp *Replayer) PathsDepth(depth int, inits []string) error {
	var rec func(init *TState, cur *TState, steps []RStep, left int) error
	rec = func(init *TState, cur *TState, steps []RStep, left int) error {
		for i := range cur.Tr {
			tr := &cur.Tr[i]
			st, next, err := rp.stepFor(cur, tr, left == 1)
			if err != nil {
				return err
			}
			ns := append(append([]RStep{}, steps...), st)
			if left == 1 {
				r := rp.newReplay(init, ns)
				rp.Paths++
				rp.Steps += len(ns)
				if kind, det := RunReplay(&r); kind != "" {
					r.Kind, r.Detail = kind, det
					rp.report(r)
				}
				continue
			}
			if next != nil {
				if err := rec(init, next, ns, left-1); err != nil {
					return err
				}
			}
		}
		return nil
	}
	for _, k := range inits {
		ts := rp.T.States[k]
		if err := rec(ts, ts, nil, depth); err != nil {
			return err
		}
	}
	return nil
}

// Walks runs seeded random walks inside the table, comparing after every step.
func (rp *Replayer) Walks(rng *rand.Rand, n, length int, inits []string) error {
	for w := 0; w < n; w++ {
		init := rp.T.States[inits[rng.Intn(len(inits))]]
		cur := init
		var steps []RStep
		for l := 0; l < length; l++ {
			if len(cur.Tr) == 0 {
				break
			}
			tr := &cur.Tr[rng.Intn(len(cur.Tr))]
			st, next, err := rp.stepFor(cur, tr, true)
			if err != nil {
				return err
			}
			steps = append(steps, st)
			if next == nil {
				break
			}
			cur = next
		}
		if len(steps) == 0 {
			continue
		}
		r := rp.newReplay(init, steps)
		rp.Paths++
		rp.Steps += len(steps)
		if kind, det, idx := RunReplayIdx(&r); kind != "" {
			r.Kind, r.Detail = kind, det
			r.Steps = r.Steps[:idx+1] // cut the path after the failing step
			rp.report(r)
		} else if len(rp.Samples) < 5 && w%97 == 3 {
			rp.Samples = append(rp.Samples, r)
		}
	}
	return nil
}
