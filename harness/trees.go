package main

// trees.go: expression trees as data (the node records of spec/Render.tla),
// the concretiser that builds real Stacks / Conditions / aliases from them
// through the public API, and the rune <-> token mapping.

import (
	"fmt"
	"strconv"
	"strings"

	stackage "github.com/JesseCoretta/go-stackage"
)

type Node = map[string]any

func nStr(n Node, k string) string { s, _ := n[k].(string); return s }
func nBool(n Node, k string) bool  { b, _ := n[k].(bool); return b }
func nToks(n Node, k string) []string {
	var out []string
	if l, ok := n[k].([]any); ok {
		for _, x := range l {
			s, _ := x.(string)
			out = append(out, s)
		}
	}
	return out
}
func nKids(n Node, k string) []Node {
	var out []Node
	if l, ok := n[k].([]any); ok {
		for _, x := range l {
			if m, ok := x.(map[string]any); ok {
				out = append(out, m)
			}
		}
	}
	return out
}

// LF / NB (U+00A0) / EM (U+2003) are Unicode white space but NOT blanks of the rendering grammar (only space and tab are condensed)
var tokRune = map[string]string{"SP": " ", "TAB": "\t", "U2": "é", "U3": "€", "U4": "😀", "LF": "\n", "NB": "\u00a0", "EM": "\u2003"}
var runeTok = map[rune]string{' ': "SP", '\t': "TAB", 'é': "U2", '€': "U3", '😀': "U4", '\n': "LF", '\u00a0': "NB", '\u2003': "EM"}

func Detok(toks []string) string {
	var b strings.Builder
	for _, t := range toks {
		if r, ok := tokRune[t]; ok {
			b.WriteString(r)
		} else {
			b.WriteString(t)
		}
	}
	return b.String()
}

func Tokenize(s string) []string {
	out := []string{}
	for _, r := range s {
		if t, ok := runeTok[r]; ok {
			out = append(out, t)
		} else if r > 32 && r < 127 {
			out = append(out, string(r))
		} else {
			out = append(out, fmt.Sprintf("?%x", r))
		}
	}
	return out
}

func toksAny(toks []string) []any {
	out := make([]any, len(toks))
	for i, t := range toks {
		out[i] = t
	}
	return out
}

func encPairs(n Node) []any {
	var args []any
	if l, ok := n["enc"].([]any); ok {
		for _, p := range l {
			var pair []string
			if pl, ok := p.([]any); ok {
				for _, side := range pl {
					var toks []string
					if sl, ok := side.([]any); ok {
						for _, x := range sl {
							s, _ := x.(string)
							toks = append(toks, s)
						}
					}
					pair = append(pair, Detok(toks))
				}
			}
			args = append(args, pair)
		}
	}
	return args
}

// BuildNode builds the real Go value for a tree node.
func BuildNode(n Node) any {
	switch nStr(n, "t") {
	case "nil":
		return nil
	case "leaf":
		txt := Detok(nToks(n, "v"))
		switch nStr(n, "ty") {
		case "int":
			i, _ := strconv.Atoi(txt)
			return i
		case "bool":
			return txt == "true"
		case "flt":
			f, _ := strconv.ParseFloat(txt, 64)
			return f
		case "f32":
			f, _ := strconv.ParseFloat(txt, 32)
			return float32(f)
		case "tnil": // a typed nil pointer: an element like any other (not nil as an interface value)
			return (*int)(nil)
		}
		return txt
	case "ptr":
		x, _ := n["x"].(map[string]any)
		return ptrTo(BuildNode(x), argIntDefault(n["d"], 1))
	case "sl":
		return buildSlice(n)
	case "mp":
		m := map[string]int{}
		mpv := map[string]*int{} // vp: the same map with POINTER values (compared by what they point to, never by address)
		ks, _ := n["ks"].([]any)
		vs, _ := n["vs"].([]any)
		for i := range ks {
			k := Detok(anyToks(ks[i]))
			v, _ := strconv.Atoi(Detok(anyToks(vs[i])))
			m[k] = v
			pv := v
			mpv[k] = &pv
		}
		if nBool(n, "vp") {
			return mpv
		}
		return m
	case "mpa":
		m := map[string]any{}
		ks, _ := n["ks"].([]any)
		for i, e := range nKids(n, "e") {
			if i < len(ks) {
				m[Detok(anyToks(ks[i]))] = BuildNode(e)
			}
		}
		return m
	case "st":
		a, _ := strconv.Atoi(Detok(nToks(n, "a")))
		switch nStr(n, "sty") {
		case "embp":
			return eqStructP{A: a, C: Detok(nToks(n, "c"))}
		case "embx":
			return eqStructX{A: a, C: Detok(nToks(n, "c"))}
		}
		return eqStruct{A: a, p: Detok(nToks(n, "p")), C: Detok(nToks(n, "c"))}
	case "stk":
		s := BuildStack(n)
		switch nStr(n, "form") {
		case "alias":
			return AStack(s)
		case "walias":
			return WStack(s)
		case "xalias":
			return XStack(s)
		case "ptr":
			a := AStack(s)
			return &a
		}
		return s
	case "cnd":
		c := BuildCond(n)
		switch nStr(n, "form") {
		case "alias":
			return ACond(c)
		case "walias":
			return WCond(c)
		case "xalias":
			return XCond(c)
		case "ptr":
			a := ACond(c)
			return &a
		}
		return c
	}
	return nil
}

func BuildStack(n Node) stackage.Stack {
	cap := 0
	if c, ok := n["cap"].(float64); ok {
		cap = int(c)
	}
	s := NewKind(nStr(n, "k"), cap)
	if nBool(n, "paren") {
		s.SetParen(true)
	}
	if nBool(n, "fold") {
		s.SetFold(true)
	}
	if nBool(n, "nspad") {
		s.SetNoPadding(true)
	}
	if nBool(n, "lonce") {
		s.SetLeadOnce(true)
	}
	if nBool(n, "neg") {
		s.SetNegativeIndices(true)
	}
	if nBool(n, "fwd") {
		s.SetForwardIndices(true)
	}
	if nBool(n, "mtx") {
		s.SetMutex()
	}
	if sym := nToks(n, "sym"); len(sym) > 0 {
		s.SetSymbol(Detok(sym))
	}
	if d := nToks(n, "delim"); len(d) > 0 {
		s.SetDelimiter(Detok(d))
	}
	if enc := encPairs(n); len(enc) > 0 {
		s.SetEncap(enc...)
	}
	for _, k := range nKids(n, "e") {
		s.Push(BuildNode(k))
	}
	if nBool(n, "nn") {
		s.SetNoNesting(true) // after the elements went in: the option concerns future pushes only
	}
	if nBool(n, "er") {
		s.SetErr(errUser) // a leftover error: it says something about an earlier call, nothing about the content
	}
	return s
}

func BuildCond(n Node) stackage.Condition {
	var c stackage.Condition
	c.Init()
	if kw := nToks(n, "kw"); len(kw) > 0 {
		c.SetKeyword(Detok(kw))
	}
	if op := nStr(n, "op"); op != "none" && op != "" {
		c.SetOperator(ConcOp(op))
	}
	if ex, ok := n["ex"].(map[string]any); ok && nStr(ex, "t") != "nil" {
		c.SetExpression(BuildNode(ex))
	}
	if nBool(n, "paren") {
		c.SetParen(true)
	}
	if nBool(n, "nspad") {
		c.SetNoPadding(true)
	}
	if enc := encPairs(n); len(enc) > 0 {
		c.SetEncap(enc...)
	}
	return c
}


// eqStructP / eqStructX: two DIFFERENT struct types whose middle field is an embedded struct of an unexported /
// exported type: comparing one with the other is a mismatch (field visibility), never a panic
type eqInner struct{ N int }
type EqOuter struct{ N int }
type eqStructP struct {
	A int
	eqInner
	C string
}
type eqStructX struct {
	A int
	EqOuter
	C string
}

// eqStruct: a struct leaf with an unexported field between exported ones (C05)
type eqStruct struct {
	A int
	p string
	C string
}

func anyToks(x any) []string {
	var out []string
	if l, ok := x.([]any); ok {
		for _, e := range l {
			s, _ := e.(string)
			out = append(out, s)
		}
	}
	return out
}

func argIntDefault(x any, d int) int {
	if f, ok := x.(float64); ok {
		return int(f)
	}
	if i, ok := x.(int); ok {
		return i
	}
	return d
}

func ptrTo(v any, depth int) any {
	for i := 0; i < depth; i++ {
		switch tv := v.(type) {
		case int:
			v = &tv
		case *int:
			v = &tv
		case string:
			v = &tv
		case *string:
			v = &tv
		case bool:
			v = &tv
		case []int:
			v = &tv
		case eqStruct:
			v = &tv
		case *eqStruct:
			v = &tv
		case eqStructP:
			v = &tv
		case eqStructX:
			v = &tv
		default:
			return v
		}
	}
	return v
}

// buildSlice builds []int / []string / [][]int or arrays [1..3]int of the element leaves
func buildSlice(n Node) any {
	kids := nKids(n, "e")
	arr := nBool(n, "arr")
	slack := argIntDefault(n["slack"], 0) // spare backing capacity: allocated differently, same value
	switch nStr(n, "ety") {
	case "ptr": // []*int, a nil element is a nil pointer
		for _, k := range kids {
			if nStr(k, "t") != "nil" && !(nStr(k, "t") == "leaf" && nStr(k, "ty") == "int") {
				// an element of another type does not fit []*int: pointers (and nil pointers) inside a []any
				gen := make([]any, 0, len(kids)+slack)
				for _, k2 := range kids {
					if nStr(k2, "t") == "nil" {
						gen = append(gen, (*int)(nil))
					} else {
						gen = append(gen, ptrTo(BuildNode(k2), 1))
					}
				}
				return gen
			}
		}
		out := make([]*int, 0, len(kids)+slack)
		for _, k := range kids {
			if nStr(k, "t") == "nil" {
				out = append(out, nil)
				continue
			}
			i, _ := strconv.Atoi(Detok(nToks(k, "v")))
			out = append(out, &i)
		}
		return out
	case "any": // []any of arbitrary leaves
		out := make([]any, 0, len(kids)+slack)
		for _, k := range kids {
			out = append(out, BuildNode(k))
		}
		return out
	}
	if len(kids) > 0 && nStr(kids[0], "t") == "sl" {
		out := make([][]int, 0, len(kids)+slack)
		gen := make([]any, 0, len(kids)+slack)
		typed := true
		for _, k := range kids {
			b := buildSlice(k)
			inner, ok := b.([]int)
			typed = typed && ok
			out = append(out, inner)
			gen = append(gen, b)
		}
		if !typed {
			return gen // an inner []*int / []any / array does not fit [][]int: the outer one becomes []any (same value)
		}
		return out
	}
	// leaves of different Go types (an int among strings, a float among ints ...) only fit a []any
	for _, k := range kids {
		if nStr(k, "t") != "leaf" || nStr(k, "ty") != nStr(kids[0], "ty") || (nStr(k, "ty") != "int" && nStr(k, "ty") != "str") {
			out := make([]any, 0, len(kids)+slack)
			for _, k2 := range kids {
				out = append(out, BuildNode(k2))
			}
			return out
		}
	}
	if len(kids) > 0 && nStr(kids[0], "ty") == "str" {
		out := make([]string, 0, len(kids)+slack)
		for _, k := range kids {
			out = append(out, Detok(nToks(k, "v")))
		}
		return out
	}
	ints := make([]int, 0, len(kids)+slack)
	for _, k := range kids {
		i, _ := strconv.Atoi(Detok(nToks(k, "v")))
		ints = append(ints, i)
	}
	if arr {
		switch len(ints) {
		case 1:
			return [1]int{ints[0]}
		case 2:
			return [2]int{ints[0], ints[1]}
		case 3:
			return [3]int{ints[0], ints[1], ints[2]}
		case 4:
			return [4]int{ints[0], ints[1], ints[2], ints[3]}
		}
	}
	return ints
}
