package main

// cqueries.go: many goroutines issue queries on ONE shared structure at the
// same time (property C11).  Every answer -- the isolated ones and each
// goroutine's -- is recorded in the vocabulary of spec/Check_Queries.tla,
// which validates all of them against the specification.  Meant for a
// -race build: no race report at all is acceptable here.

import (
	"bufio"
	"encoding/json"
	"flag"
	"fmt"
	"math/rand"
	"os"
	"reflect"
	"sync"

	stackage "github.com/JesseCoretta/go-stackage"
)

func answerQuery(root, copy2 stackage.Stack, q map[string]any) (ans any) {
	defer func() {
		if r := recover(); r != nil {
			ans = map[string]any{"PANIC": fmt.Sprint(r)}
		}
	}()
	found := func(v any, ok bool) any {
		if !ok {
			return map[string]any{"ok": "false", "v": Node{"t": "nil"}}
		}
		return map[string]any{"ok": "true", "v": ProjectStruct(v)}
	}
	switch q["op"] {
	case "String":
		return Tokenize(root.String())
	case "Len":
		return root.Len()
	case "Kind":
		return Tokenize(root.Kind())
	case "IsEmpty":
		return b2s(root.IsEmpty())
	case "IsNesting":
		return b2s(root.IsNesting())
	case "Cap":
		return root.Cap()
	case "Avail":
		return root.Avail()
	case "Index":
		return found(root.Index(argInt(q["i"])))
	case "Front":
		return found(root.Front())
	case "Back":
		return found(root.Back())
	case "Traverse":
		path := append(make([]int, 0, 8), intsOf(q["p"])...) // the caller's own slice, with spare capacity
		given := append([]int{}, path...)
		v, ok := root.Traverse(path...)
		if !reflect.DeepEqual(path, given) {
			return map[string]any{"ok": "false", "v": Node{"t": "leaf", "ty": "str", "v": Tokenize(fmt.Sprintf("path-rewritten:%v->%v", given, path))}}
		}
		return found(v, ok)
	case "Unmarshal":
		u, _ := root.Unmarshal()
		return ProjectU(u)
	case "IsEqual":
		if root.IsEqual(copy2) != nil {
			return "err"
		}
		return "nil"
	case "Less":
		return b2s(root.Less(argInt(q["i"]), argInt(q["j"])))
	case "Valid":
		if root.Valid() != nil {
			return "err"
		}
		return "ok"
	}
	return "?"
}

func setMtxRO(n Node, rng *rand.Rand) {
	if nStr(n, "t") == "stk" {
		n["mtx"] = rng.Intn(2) == 0
		n["neg"] = rng.Intn(2) == 0
		n["fwd"] = rng.Intn(3) == 0
		for _, k := range nKids(n, "e") {
			setMtxRO(k, rng)
		}
	} else if nStr(n, "t") == "cnd" {
		if ex, ok := n["ex"].(map[string]any); ok {
			setMtxRO(ex, rng)
		}
	}
}

func cmdCQueries(args []string) {
	fs := flag.NewFlagSet("cqueries", flag.ExitOnError)
	out := fs.String("out", "", "ndjson of recorded answers")
	rounds := fs.Int("rounds", 100, "structures")
	gor := fs.Int("g", 12, "goroutines per structure")
	seed := fs.Int64("seed", 1, "seed")
	_ = fs.Parse(args)
	of, err := os.Create(*out)
	if err != nil {
		die(2, "%v", err)
	}
	defer of.Close()
	w := bufio.NewWriterSize(of, 1<<20)
	defer w.Flush()
	enc := json.NewEncoder(w)
	rng := rand.New(rand.NewSource(*seed))
	g := &treeGen{rng: rng, maxDepth: 3, forms: true, nils: true, validConds: true}
	lines := 0
	for r := 0; r < *rounds; r++ {
		tree := toGeneric(g.stack(0)).(map[string]any)
		for tree["k"] == "BASIC" {
			tree = toGeneric(g.stack(0)).(map[string]any)
		}
		setMtxRO(tree, rng)
		tree["form"] = "native"
		root, _ := stackage.ConvertStack(BuildNode(tree))
		copy2, _ := stackage.ConvertStack(BuildNode(tree))
		// an equality closure (its verdict differs from the built-in one): every IsEqual query, from every goroutine, gets ITS answer
		tree["eqpol"] = rng.Intn(3) == 0
		if tree["eqpol"] == true {
			root.SetEqualityPolicy(func(any, any) error { return errClosure })
		}
		if rng.Intn(2) == 0 {
			root.SetReadOnly(true) // the documented lock-free read-only mode
		}
		queries := []map[string]any{{"op": "String"}, {"op": "Len"}, {"op": "Kind"}, {"op": "IsEmpty"}, {"op": "IsNesting"}, {"op": "Cap"}, {"op": "Avail"},
			{"op": "Front"}, {"op": "Back"}, {"op": "Unmarshal"}, {"op": "IsEqual"}, {"op": "Valid"}}
		for _, i := range []int{-2, -1, 0, 1, 2, 6} {
			queries = append(queries, map[string]any{"op": "Index", "i": i})
		}
		for k := 0; k < 8; k++ {
			queries = append(queries, map[string]any{"op": "Less", "i": rng.Intn(7) - 2, "j": rng.Intn(7) - 2})
		}
		for k := 0; k < 8; k++ {
			n := 1 + rng.Intn(4)
			p := []any{}
			for j := 0; j < n; j++ {
				p = append(p, rng.Intn(6)-1)
			}
			queries = append(queries, map[string]any{"op": "Traverse", "p": p})
		}
		qj := toGeneric(queries)
		run := func(order []int) []any {
			ans := make([]any, len(queries))
			for _, i := range order {
				ans[i] = toGeneric(answerQuery(root, copy2, queries[i]))
			}
			return ans
		}
		ident := make([]int, len(queries))
		for i := range ident {
			ident[i] = i
		}
		_ = enc.Encode(map[string]any{"in": tree, "arg": qj, "out": run(ident), "who": "isolated"})
		lines++
		results := make([][]any, *gor)
		var wg sync.WaitGroup
		start := make(chan struct{})
		for k := 0; k < *gor; k++ {
			k := k
			order := rand.New(rand.NewSource(*seed*1000 + int64(r*100+k))).Perm(len(queries))
			wg.Add(1)
			go func() {
				defer wg.Done()
				<-start
				for rep := 0; rep < 3; rep++ {
					results[k] = run(order)
				}
			}()
		}
		close(start)
		wg.Wait()
		for k := 0; k < *gor; k++ {
			_ = enc.Encode(map[string]any{"in": tree, "arg": qj, "out": results[k], "who": fmt.Sprintf("g%d", k)})
			lines++
		}
	}
	fmt.Printf("{\"rounds\": %d, \"lines\": %d, \"goroutines\": %d}\n", *rounds, lines, *gor)
}

func init() { commands["cqueries"] = cmdCQueries }
