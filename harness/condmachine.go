package main

// condmachine.go: binding of spec/CondCore.tla to the real Condition type.

import (
	"bufio"
	"encoding/json"
	"errors"
	"flag"
	"fmt"
	"math/rand"
	"os"
	"strings"

	stackage "github.com/JesseCoretta/go-stackage"
)

type CState struct {
	Live  bool       `json:"live"`
	Kw    string     `json:"kw"`
	Op    string     `json:"op"`
	Ex    string     `json:"ex"`
	Opts  []string   `json:"opts"`
	Enc   [][]string `json:"enc"`
	Err   string     `json:"err"`
	ID    string     `json:"id"`
	Cat   string     `json:"cat"`
	VPol  string     `json:"vpol"`
	PPol  bool       `json:"ppol"`
	EPol  bool       `json:"epol"`
	UPol  bool       `json:"upol"`
	EvPol bool       `json:"evpol"`
	Lvl   []int      `json:"lvl"`
}

// sliceOp: a user-defined Operator whose Go type is NOT comparable (== on two of them panics)
type sliceOp []string

func (o sliceOp) String() string { return strings.Join(o, "") }
func (sliceOp) Context() string  { return "user" }

// ctxOp: a user operator with a chosen text and context (the same TEXT as another operator, a context of its own)
type ctxOp struct{ text, ctx string }

func (o ctxOp) String() string  { return o.text }
func (o ctxOp) Context() string { return o.ctx }

type emptyCtxOp struct{}

func (emptyCtxOp) String() string  { return "%" }
func (emptyCtxOp) Context() string { return "" }

type emptyTextOp struct{}

func (emptyTextOp) String() string  { return "" }
func (emptyTextOp) Context() string { return "user" }

// ConcOp builds the Operator argument for an abstract operator id.
func ConcOp(o string) stackage.Operator {
	switch o {
	case "Eq":
		return stackage.Eq
	case "Ne":
		return stackage.Ne
	case "Lt":
		return stackage.Lt
	case "Gt":
		return stackage.Gt
	case "Le":
		return stackage.Le
	case "Ge":
		return stackage.Ge
	case "op0":
		return stackage.ComparisonOperator(0)
	case "op9":
		return stackage.ComparisonOperator(9)
	case "user":
		return userOp("~=")
	case "userB":
		return ctxOp{"~=", "other"}
	case "eqB":
		return ctxOp{"=", "other"}
	case "uslice":
		return sliceOp{"~="}
	case "like":
		return userOp("like")
	case "LIKE":
		return userOp("LIKE")
	case "emptytext":
		return emptyTextOp{}
	case "emptyctx":
		return emptyCtxOp{}
	}
	return nil // "nil", "none"
}

// ConcEx builds the expression argument for an abstract expression name.
func ConcEx(x string) any {
	switch x {
	case "nil":
		return nil
	case "s:v":
		return "v"
	case "s:w x":
		return "w x"
	case "s:":
		return ""
	case "i:5":
		return 5
	case "b:t":
		return true
	case "str":
		return strer{"sv"}
	}
	return Conc(x) // S A P C
}

func ProjEx(x any) string {
	switch tv := x.(type) {
	case nil:
		return "nil"
	case string:
		if tv == "" {
			return "s:"
		}
		return "str"
	case int:
		return fmt.Sprintf("i:%d", tv)
	case bool:
		if tv {
			return "b:t"
		}
		return "b:f"
	case strer:
		return "str"
	}
	return Proj(x)
}

func concKw(k map[string]any) any {
	f, _ := k["form"].(string)
	v, _ := k["v"].(string)
	switch f {
	case "str":
		return v
	case "stringer":
		return strer{v}
	case "nil":
		return nil
	}
	return 42
}

type condHandle struct {
	c stackage.Condition
	n int
}

func setCOpt(c stackage.Condition, f, m string, dep ...bool) {
	var arg []bool
	switch m {
	case "on":
		arg = []bool{true}
	case "off":
		arg = []bool{false}
	}
	if len(dep) > 0 && dep[0] {
		switch f {
		case "paren":
			c.Paren(arg...)
			return
		case "nspad":
			c.NoPadding(arg...)
			return
		case "nnest":
			c.NoNesting(arg...)
			return
		}
	}
	switch f {
	case "paren":
		c.SetParen(arg...)
	case "nspad":
		c.SetNoPadding(arg...)
	case "ronly":
		c.SetReadOnly(arg...)
	case "nnest":
		c.SetNoNesting(arg...)
	default:
		panic("unknown condition flag " + f)
	}
}

func setVPol(c stackage.Condition, mode string) {
	switch mode {
	case "ok":
		c.SetValidityPolicy(func(...any) error { return nil })
	case "bad":
		c.SetValidityPolicy(func(...any) error { return sentinelErr })
	default:
		c.SetValidityPolicy(nil)
	}
}

type condMachine struct{}

func (condMachine) Name() string { return "cond" }

func (condMachine) Build(st, _ json.RawMessage) Handle {
	var a CState
	_ = json.Unmarshal(st, &a)
	h := &condHandle{}
	if !a.Live {
		return h
	}
	h.c.Init()
	if a.Kw != "" {
		h.c.SetKeyword(a.Kw)
	}
	if a.Op != "none" {
		h.c.SetOperator(ConcOp(a.Op))
	}
	if a.Ex != "nil" {
		h.c.SetExpression(ConcEx(a.Ex))
	}
	if len(a.Enc) > 0 {
		h.c.SetEncap(encArgs(a.Enc)...)
	}
	if a.ID != "" {
		h.c.SetID(a.ID)
	}
	if a.Cat != "" {
		h.c.SetCategory(a.Cat)
	}
	if len(a.Lvl) > 0 {
		bits := 0
		for _, b := range a.Lvl {
			bits |= 1 << (b - 1)
		}
		if bits == 65535 {
			h.c.SetLogLevel(stackage.AllLogLevels)
		} else {
			h.c.SetLogLevel(stackage.LogLevel(bits))
		}
	}
	if a.VPol != "none" && a.VPol != "" {
		setVPol(h.c, a.VPol)
	}
	if a.PPol {
		h.c.SetPresentationPolicy(func(...any) string { return "<<closure>>" })
	}
	if a.EPol {
		setCondClosure(h, "SetEqualityPolicy", true)
	}
	if a.UPol {
		setCondClosure(h, "SetUnmarshaler", true)
	}
	if a.EvPol {
		setCondClosure(h, "SetEvaluator", true)
	}
	if a.Err == "set" {
		h.c.SetErr(errUser)
	}
	ro := false
	for _, f := range a.Opts {
		if f == "ronly" {
			ro = true
			continue
		}
		setCOpt(h.c, f, "on")
	}
	if ro {
		setCOpt(h.c, "ronly", "on")
	}
	return h
}

func (condMachine) Apply(hh Handle, _ string, c Call) (ret []string) {
	h := hh.(*condHandle)
	ret = []string{}
	defer func() {
		if r := recover(); r != nil {
			ret = []string{"PANIC", fmt.Sprint(r)}
		}
	}()
	sub := func(k string) map[string]any { m, _ := c[k].(map[string]any); return m }
	switch c.Op() {
	case "Init":
		// Init REPLACES the instance behind this handle (the documented way to reuse one variable): a copy of the handle
		// taken before keeps showing the old instance, untouched
		before := h.c
		kw0, op0, ex0, str0, init0 := before.Keyword(), before.Operator(), before.Expression(), before.String(), before.IsInit()
		h.c.Init()
		if init0 && (before.Keyword() != kw0 || before.String() != str0 || !before.IsInit() ||
			fmt.Sprintf("%T %v", before.Operator(), before.Operator()) != fmt.Sprintf("%T %v", op0, op0) || ProjEx(before.Expression()) != ProjEx(ex0)) {
			ret = append(ret, "INIT-WIPED-OTHER-HANDLES")
		}
	case "Cond":
		h.c = stackage.Cond(concKw(sub("k")), ConcOp(c.Str("o")), ConcEx(c.Str("x")))
	case "SetKeyword":
		h.c.SetKeyword(concKw(sub("k")))
	case "SetOperator":
		h.c.SetOperator(ConcOp(c.Str("o")))
	case "SetExpression":
		h.c.SetExpression(ConcEx(c.Str("x")))
	case "SetOpt":
		setCOpt(h.c, c.Str("f"), c.Str("m"), c.Bool("dep"))
	case "SetErr":
		if c.Bool("on") {
			h.c.SetErr(errUser)
		} else {
			h.c.SetErr(nil)
		}
	case "SetEncap":
		var args []any
		if l, ok := c["pairs"].([]any); ok {
			for _, p := range l {
				var pair []string
				if pl, ok := p.([]any); ok {
					for _, x := range pl {
						s, _ := x.(string)
						pair = append(pair, s)
					}
				}
				args = append(args, pair)
			}
		}
		h.c.SetEncap(args...)
	case "SetID":
		h.c.SetID(c.Str("v"))
	case "SetCategory":
		h.c.SetCategory(c.Str("v"))
	case "SetLogLevel":
		h.c.SetLogLevel(lvlArgs(c, &h.n)...)
	case "UnsetLogLevel":
		h.c.UnsetLogLevel(lvlArgs(c, &h.n)...)
	case "SetValidityPolicy":
		setVPol(h.c, c.Str("mode"))
	case "SetPresentationPolicy":
		if c.Bool("on") {
			h.c.SetPresentationPolicy(func(...any) string { return "<<closure>>" })
		} else {
			h.c.SetPresentationPolicy(nil)
		}
	case "SetEqualityPolicy", "SetUnmarshaler", "SetEvaluator":
		setCondClosure(h, c.Op(), c.Bool("on"))
	case "Free":
		if err := h.c.Free(); err != nil {
			ret = []string{"err"}
		} else {
			ret = []string{"nil"}
		}
	default:
		panic("harness: unknown condition op " + c.Op())
	}
	return
}

// setCondClosure installs / removes (alternating between the "no argument" and the nil spelling) one of the further closures
func setCondClosure(h *condHandle, op string, on bool) {
	h.n++
	alt := h.n%2 == 0
	switch op {
	case "SetEqualityPolicy":
		if on {
			h.c.SetEqualityPolicy(func(any, any) error { return errClosure })
		} else if alt {
			h.c.SetEqualityPolicy()
		} else {
			h.c.SetEqualityPolicy(nil)
		}
	case "SetUnmarshaler":
		if on {
			h.c.SetUnmarshaler(func(...any) ([]any, error) { return []any{"<<closure>>"}, nil })
		} else if alt {
			h.c.SetUnmarshaler()
		} else {
			h.c.SetUnmarshaler(nil)
		}
	case "SetEvaluator":
		if on {
			h.c.SetEvaluator(func(...any) (any, error) { return "<<closure>>", nil })
		} else {
			h.c.SetEvaluator(nil)
		}
	}
}

type CObs struct {
	Init    string     `json:"init"`
	Kw      string     `json:"kw"`
	Op      string     `json:"op"`
	OpCtx   string     `json:"opctx"`
	Ex      string     `json:"ex"`
	Len     int        `json:"len"`
	Nesting string     `json:"nesting"`
	CanNest string     `json:"cannest"`
	Paren   string     `json:"paren"`
	Padded  string     `json:"padded"`
	Ronly   string     `json:"ronly"`
	IsEnc   string     `json:"isenc"`
	Enc     [][]string `json:"enc"`
	Err     string     `json:"err"`
	ID      string     `json:"id"`
	Cat     string     `json:"cat"`
	Valid   string     `json:"valid"`
	Str     string     `json:"str"`
	Bits    []string   `json:"bits"`
	LogLvls string     `json:"loglevels"`
	EqSrc   string     `json:"eqsrc"`
	UmSrc   string     `json:"umsrc"`
	EvSrc   string     `json:"evsrc"`
}

var condFlagBits = []int{1, 4, 128, 256} // paren nspad ronly nnest

func ObserveCond(c stackage.Condition) CObs {
	var o CObs
	o.Init = safeS(func() string { return b2s(c.IsInit()) })
	o.Kw = safeS(c.Keyword)
	o.Op, o.OpCtx = "none", ""
	func() {
		defer func() {
			if r := recover(); r != nil {
				o.Op = "PANIC:" + fmt.Sprint(r)
			}
		}()
		if op := c.Operator(); op != nil {
			o.Op, o.OpCtx = op.String(), op.Context()
		}
	}()
	o.Ex = safeS(func() string { return ProjEx(c.Expression()) })
	o.Len = safeI(c.Len)
	o.Nesting = safeS(func() string { return b2s(c.IsNesting()) })
	o.CanNest = safeS(func() string { return b2s(c.CanNest()) })
	o.Paren = safeS(func() string { return b2s(c.IsParen()) })
	o.Padded = safeS(func() string { return b2s(c.IsPadded()) })
	o.Ronly = safeS(func() string { return b2s(c.IsReadOnly()) })
	o.IsEnc = safeS(func() string { return b2s(c.IsEncap()) })
	o.Err = safeS(func() string {
		if c.Err() != nil {
			return "set"
		}
		return "none"
	})
	o.ID = safeS(c.ID)
	o.Cat = safeS(c.Category)
	o.Valid = safeS(func() string {
		if c.Valid() != nil {
			return "err"
		}
		return "ok"
	})
	o.Str = safeS(c.String)
	o.LogLvls = safeS(c.LogLevels)
	o.EqSrc, o.UmSrc, o.EvSrc = "none", "none", "none"
	if o.Init == "true" {
		o.EqSrc = safeS(func() string {
			if errors.Is(c.IsEqual(c), errClosure) {
				return "closure"
			}
			// no closure of its own: the peer's closure (which calls everything equal) must not be consulted
			peer := stackage.Cond("peer-only", stackage.Ne, "peer-value")
			peer.SetEqualityPolicy(func(any, any) error { return nil })
			if c.IsEqual(peer) == nil {
				return "peer-closure"
			}
			return "builtin"
		})
		o.UmSrc = safeS(func() string {
			u, _ := c.Unmarshal()
			if len(u) == 1 && u[0] == "<<closure>>" {
				return "closure"
			}
			return "builtin"
		})
		o.EvSrc = safeS(func() string {
			v, err := c.Evaluate("x", 1)
			switch {
			case err != nil && v == nil:
				return "error"
			case err == nil && v == "<<closure>>":
				return "closure"
			}
			return fmt.Sprintf("?%v/%v", v, err)
		})
	}
	o.Enc = [][]string{}
	o.Bits = []string{}
	if o.Init == "true" {
		func() {
			defer func() { _ = recover() }()
			d := stackage.VerifDump(c)
			cfg, _ := d["cfg"].(map[string]any)
			opt, _ := cfg["opt"].(int)
			for _, b := range condFlagBits {
				o.Bits = append(o.Bits, b2s(opt&b != 0))
			}
			if extra := opt &^ (1 | 4 | 128 | 256); extra != 0 {
				o.Bits = append(o.Bits, fmt.Sprintf("extra:%d", extra))
			}
			if enc, ok := cfg["enc"].([][]string); ok {
				for _, e := range enc {
					o.Enc = append(o.Enc, append([]string{}, e...))
				}
			}
		}()
	}
	return o
}

func (condMachine) Observe(hh Handle) (any, any) {
	return toGeneric(ObserveCond(hh.(*condHandle).c)), nil
}
func (condMachine) LockLeft(Handle) string { return "" }

func init() { machines["cond"] = condMachine{} }

// ---- random histories for CondTrace.tla -----------------------------------------

func cmdCondTraceGen(args []string) {
	fs := flag.NewFlagSet("condtracegen", flag.ExitOnError)
	out := fs.String("out", "", "output ndjson")
	seed := fs.Int64("seed", 1, "seed")
	traces := fs.Int("traces", 200, "histories")
	length := fs.Int("len", 40, "calls per history")
	_ = fs.Parse(args)
	f, err := os.Create(*out)
	if err != nil {
		die(2, "%v", err)
	}
	defer f.Close()
	w := bufio.NewWriterSize(f, 1<<20)
	defer w.Flush()
	enc := json.NewEncoder(w)
	rng := rand.New(rand.NewSource(*seed))
	kws := []map[string]any{{"form": "str", "v": "k"}, {"form": "str", "v": "kw2"}, {"form": "str", "v": ""},
		{"form": "stringer", "v": "sv"}, {"form": "nil", "v": ""}, {"form": "int", "v": ""}}
	ops := []string{"Eq", "Ne", "Lt", "Gt", "Le", "Ge", "op0", "op9", "user", "userB", "eqB", "emptytext", "emptyctx", "nil"}
	exs := []string{"nil", "s:v", "s:w x", "s:", "i:5", "b:t", "str", "S", "A", "P", "C"}
	flags := []string{"paren", "nspad", "ronly", "nnest"}
	pairs := [][]any{{}, {[]any{"\""}}, {[]any{"<", ">"}}, {[]any{"<", ">"}, []any{"\""}}, {[]any{"\"", ">"}}, {[]any{"'"}}, {[]any{"(", ")"}}}
	m := condMachine{}
	events := 0
	for t := 0; t < *traces; t++ {
		live := rng.Intn(8) != 0
		init := CState{Live: live, Op: "none", Ex: "nil", Opts: []string{}, Enc: [][]string{}, Err: "none", VPol: "none", Lvl: []int{}}
		ij, _ := json.Marshal(init)
		h := m.Build(ij, nil)
		_ = enc.Encode(map[string]any{"ev": "reset", "st": init, "ret": []string{}})
		for n := 0; n < *length; n++ {
			var c Call
			switch r := rng.Intn(100); {
			case r < 18:
				c = Call{"op": "SetKeyword", "k": kws[rng.Intn(len(kws))]}
			case r < 36:
				c = Call{"op": "SetOperator", "o": ops[rng.Intn(len(ops))]}
			case r < 58:
				c = Call{"op": "SetExpression", "x": exs[rng.Intn(len(exs))]}
			case r < 66:
				c = Call{"op": "Cond", "k": kws[rng.Intn(len(kws))], "o": ops[rng.Intn(len(ops))], "x": exs[rng.Intn(len(exs))]}
			case r < 69:
				c = Call{"op": "Init"}
			case r < 80:
				c = Call{"op": "SetOpt", "f": flags[rng.Intn(4)], "m": []string{"on", "off", "toggle"}[rng.Intn(3)]}
			case r < 86:
				c = Call{"op": "SetErr", "on": rng.Intn(3) == 0}
			case r < 91:
				c = Call{"op": "SetEncap", "pairs": pairs[rng.Intn(len(pairs))]}
			case r < 93:
				c = Call{"op": "SetID", "v": []string{"", "x", "id 2"}[rng.Intn(3)]}
			case r < 94:
				c = Call{"op": "SetCategory", "v": []string{"", "c"}[rng.Intn(2)]}
			case r < 96 && r >= 95:
				c = Call{"op": []string{"SetLogLevel", "UnsetLogLevel"}[rng.Intn(2)], "args": []any{
					map[string]any{"bits": []any{1 + rng.Intn(16)}, "none": false, "all": false, "form": []string{"name", "const"}[rng.Intn(2)]}}}
			case r < 97:
				c = Call{"op": "SetValidityPolicy", "mode": []string{"none", "ok", "bad"}[rng.Intn(3)]}
			case r < 99:
				c = Call{"op": []string{"SetPresentationPolicy", "SetEqualityPolicy", "SetUnmarshaler", "SetEvaluator"}[rng.Intn(4)], "on": rng.Intn(2) == 0}
			default:
				c = Call{"op": "Free"}
			}
			c = normCall(c)
			ret := m.Apply(h, "st", c)
			ob := ObserveCond(h.(*condHandle).c)
			_ = enc.Encode(map[string]any{"ev": "call", "on": "st", "c": c, "ret": ret, "obs": ob})
			events++
			if len(ret) > 0 && ret[0] == "PANIC" {
				break
			}
		}
	}
	fmt.Printf("{\"traces\": %d, \"events\": %d}\n", *traces, events)
	_ = strings.TrimSpace
}

func init() { commands["condtracegen"] = cmdCondTraceGen }
