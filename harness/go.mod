module verifharness

go 1.20

require github.com/JesseCoretta/go-stackage v0.0.0

replace github.com/JesseCoretta/go-stackage => /repo
