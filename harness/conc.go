package main

// conc.go: real goroutines on one shared mutex-enabled Stack (property C10).
//   gated  : every schedule TLC enumerated from spec/Concurrent.tla is forced
//            on real goroutines through the verif lock hook (a goroutine
//            parks before each call and before mutex.Lock()); exactly one
//            goroutine runs between park points, so a run is deterministic.
//   stress : free-running goroutines (meant for a -race build).
// Both record per-goroutine histories (call, returned values), the final
// content and integrity flags; spec/LinTrace.tla decides whether a
// sequential explanation exists.

import (
	"bufio"
	"crypto/sha256"
	"encoding/hex"
	"encoding/json"
	"flag"
	"fmt"
	"math/rand"
	"os"
	"os/exec"
	"reflect"
	"runtime"
	"strings"
	"sync"
	"sync/atomic"
	"time"

	stackage "github.com/JesseCoretta/go-stackage"
)

type HEvent struct {
	C   Call     `json:"c"`
	Ret []string `json:"ret"`
}

type History struct {
	Init   json.RawMessage `json:"init"`
	Hist   [][]HEvent      `json:"hist"`
	Final  []string        `json:"final"`
	Flags  []string        `json:"flags"`
	Sched  []int           `json:"sched,omitempty"`
	Drift  string          `json:"drift,omitempty"`
	PredOK string          `json:"predok,omitempty"`
	Mode   string          `json:"mode"`
}

type SchedLine struct {
	Init  json.RawMessage `json:"init"`
	Prog  [][]Call        `json:"prog"`
	Sched []int           `json:"sched"`
	Pred  struct {
		Rets  [][][]string `json:"rets"`
		Final []string     `json:"final"`
	} `json:"pred"`
}

func contentHash(s stackage.Stack) (h string, ldr bool, locked bool) {
	defer func() {
		if r := recover(); r != nil {
			h = "PANIC"
		}
	}()
	d := stackage.VerifDump(s)
	cfg, _ := d["cfg"].(map[string]any)
	ldr, _ = cfg["ldr"].(bool)
	locked, _ = cfg["mtxlocked"].(bool)
	var parts []string
	if sl, ok := d["slots"].([]any); ok {
		for _, x := range sl {
			parts = append(parts, Proj(x))
		}
	}
	j, _ := json.Marshal([]any{parts, cfg["opt"], cfg["ord"], cfg["cap"], d["rawlen"], d["slot0cfg"]})
	sum := sha256.Sum256(j)
	return hex.EncodeToString(sum[:6]), ldr, locked
}

func finalElems(s stackage.Stack) (out []string, flags []string) {
	out = []string{}
	defer func() {
		if r := recover(); r != nil {
			flags = append(flags, "panic in final dump: "+fmt.Sprint(r))
		}
	}()
	d := stackage.VerifDump(s)
	if d["slot0cfg"] != true {
		flags = append(flags, "slot 0 is no longer the configuration record")
	}
	if n, _ := d["cfgslots"].(int); n > 0 {
		flags = append(flags, "configuration record among the elements")
	}
	if sl, ok := d["slots"].([]any); ok {
		for _, x := range sl {
			out = append(out, Proj(x))
		}
	}
	cfg, _ := d["cfg"].(map[string]any)
	if c, _ := cfg["cap"].(int); c > 0 && len(out) > c-1 {
		flags = append(flags, fmt.Sprintf("capacity %d exceeded: %d elements", c-1, len(out)))
	}
	if cfg["mtxlocked"] == true || cfg["ldr"] == true {
		flags = append(flags, "lock (or its bookkeeping) still held after all calls returned")
	}
	return
}

type parkMsg struct {
	g     int
	point string // start | want | done
}

// hookCalls counts invocations of the lock hook (0 = the hook is not compiled in / never reached)
var hookCalls int

// runGated executes one schedule deterministically.
func runGated(sl *SchedLine) History {
	var a AState
	_ = json.Unmarshal(sl.Init, &a)
	o := Build(a)
	o.concurrent = true
	G := len(sl.Prog)
	h := History{Init: sl.Init, Hist: make([][]HEvent, G), Flags: []string{}, Sched: sl.Sched, Mode: "gated"}
	ctl := make(chan parkMsg)
	resume := make([]chan struct{}, G)
	for i := range resume {
		resume[i] = make(chan struct{})
	}
	current := -1
	var mu sync.Mutex // protects h.Flags from hook + controller
	addFlag := func(f string) {
		mu.Lock()
		for _, x := range h.Flags {
			if x == f {
				mu.Unlock()
				return
			}
		}
		h.Flags = append(h.Flags, f)
		mu.Unlock()
	}
	inCrit := false
	sawCrit := false
	segBegin, relHash := "", ""
	stackage.VerifHook = func(point string, s stackage.Stack) {
		hookCalls++
		switch point {
		case "lock.want":
			g := current
			if _, ldr, _ := contentHash(s); !ldr {
				_ = ldr
			}
			ctl <- parkMsg{g, "want"}
			<-resume[g]
		case "lock.held":
			inCrit, sawCrit = true, true
			hh, ldr, _ := contentHash(s)
			if !ldr {
				addFlag("lock bookkeeping (ldr) not set while the lock is held")
			}
			if segBegin != "" && hh != segBegin && relHash == "" {
				addFlag("content written before the lock was acquired")
			}
		case "lock.release":
			inCrit = false
		case "lock.released":
			hh, ldr, _ := contentHash(s)
			if ldr {
				addFlag("lock bookkeeping (ldr) still set after the lock was released")
			}
			relHash = hh
		}
	}
	defer func() { stackage.VerifHook = nil }()
	for g := 0; g < G; g++ {
		g := g
		go func() {
			for _, c := range sl.Prog[g] {
				ctl <- parkMsg{g, "start"}
				<-resume[g]
				ret := applyInner(o, nil, c)
				h.Hist[g] = append(h.Hist[g], HEvent{C: c, Ret: ret})
				if len(ret) > 0 && ret[0] == "PANIC" {
					addFlag("panic: " + ret[1])
				}
				for _, r := range ret {
					if len(r) > 0 && r[0] == '?' {
						addFlag("a call returned a non-user value: " + r)
					}
				}
			}
			ctl <- parkMsg{g, "done"}
		}()
	}
	state := make([]string, G) // parked point per goroutine
	wait := func() bool {
		select {
		case m := <-ctl:
			state[m.g] = m.point
			return true
		case <-time.After(2 * time.Second):
			return false
		}
	}
	for i := 0; i < G; i++ {
		if !wait() {
			addFlag("deadlock before the first call")
		}
	}
	step := func(g int) bool {
		before, ldrBefore, _ := contentHash(o.S)
		wasWant := state[g] == "want"
		if state[g] == "start" && ldrBefore {
			addFlag("lock bookkeeping (ldr) set while no goroutine holds or wants the lock")
		}
		sawCrit = false
		segBegin, relHash = before, ""
		current = g
		resume[g] <- struct{}{}
		if !wait() {
			addFlag("deadlock: a resumed goroutine neither finished its call nor reached the lock within 2s")
			return false
		}
		after, ldrAfter, lockedAfter := contentHash(o.S)
		if before != after && !sawCrit {
			addFlag("content written outside a critical section (no lock held)")
		}
		if sawCrit && relHash != "" && after != relHash {
			addFlag("content written after the lock was released")
		}
		if state[g] == "want" && !wasWant && ldrAfter {
			addFlag("lock bookkeeping (ldr) written before the lock is acquired")
		}
		if lockedAfter {
			addFlag("mutex held while no goroutine is inside a critical section")
		}
		_ = inCrit
		return true
	}
	alive := true
	for _, g1 := range sl.Sched {
		g := g1 - 1
		if g < 0 || g >= G || state[g] == "done" {
			h.Drift = "schedule names a goroutine that already finished (the implementation has fewer park points than the model)"
			continue
		}
		if alive = step(g); !alive {
			break
		}
	}
	for alive {
		progress := false
		for g := 0; g < G && alive; g++ {
			if state[g] != "done" {
				if h.Drift == "" {
					h.Drift = "schedule exhausted before all goroutines finished (the implementation has more park points than the model)"
				}
				alive = step(g)
				progress = true
			}
		}
		if !progress {
			break
		}
	}
	var fl []string
	h.Final, fl = finalElems(o.S)
	for _, f := range fl {
		addFlag(f)
	}
	// compare with the model's exact prediction (drift only, never a verdict)
	pred := true
	for g := 0; g < G && pred; g++ {
		if len(h.Hist[g]) != len(sl.Pred.Rets[g]) {
			pred = false
			break
		}
		for i := range h.Hist[g] {
			want := sl.Pred.Rets[g][i]
			if want == nil {
				want = []string{}
			}
			if !reflect.DeepEqual(h.Hist[g][i].Ret, want) {
				pred = false
			}
		}
	}
	pf := sl.Pred.Final
	if pf == nil {
		pf = []string{}
	}
	if !reflect.DeepEqual(h.Final, pf) {
		pred = false
	}
	h.PredOK = b2s(pred)
	for g := range h.Hist {
		if h.Hist[g] == nil {
			h.Hist[g] = []HEvent{}
		}
	}
	return h
}

func cmdGated(args []string) {
	fs := flag.NewFlagSet("gated", flag.ExitOnError)
	in := fs.String("sched", "", "schedules (ndjson from TLC)")
	out := fs.String("out", "", "histories ndjson")
	limit := fs.Int("limit", 0, "execute at most this many schedules (0 = all); a seeded sample is taken")
	seed := fs.Int64("seed", 1, "seed")
	first := fs.Int("first", 0, "after sampling: skip this many schedules")
	count := fs.Int("count", 0, "after sampling: execute this many schedules (0 = the rest); used to narrow down a run that dies")
	_ = fs.Parse(args)
	f, err := os.Open(*in)
	if err != nil {
		die(2, "%v", err)
	}
	defer f.Close()
	var lines [][]byte
	sc := bufio.NewScanner(f)
	sc.Buffer(make([]byte, 1<<20), 1<<26)
	for sc.Scan() {
		lines = append(lines, append([]byte{}, sc.Bytes()...))
	}
	total := len(lines)
	if *limit > 0 && len(lines) > *limit {
		rng := rand.New(rand.NewSource(*seed))
		rng.Shuffle(len(lines), func(i, j int) { lines[i], lines[j] = lines[j], lines[i] })
		lines = lines[:*limit]
	}
	if *first > 0 && *first <= len(lines) {
		lines = lines[*first:]
	}
	if *count > 0 && *count < len(lines) {
		lines = lines[:*count]
	}
	if *first > 0 || *count > 0 {
		total = len(lines)
	}
	of, err := os.Create(*out)
	if err != nil {
		die(2, "%v", err)
	}
	defer of.Close()
	w := bufio.NewWriterSize(of, 1<<20)
	defer w.Flush()
	enc := json.NewEncoder(w)
	drift, predbad, flagged, deadlocks, executed := 0, 0, 0, 0, 0
	for _, l := range lines {
		if deadlocks >= 3 {
			break // every further deadlock costs a watchdog timeout; three are proof enough
		}
		if *count == 1 {
			fmt.Printf("SELECTED %s\n", l) // announced BEFORE it runs: the run may not come back
		}
		executed++
		var sl SchedLine
		if err := json.Unmarshal(l, &sl); err != nil {
			die(2, "schedule line: %v", err)
		}
		h := runGated(&sl)
		if h.Drift != "" {
			drift++
		}
		if h.PredOK != "true" {
			predbad++
		}
		if len(h.Flags) > 0 {
			flagged++
		}
		for _, f := range h.Flags {
			if strings.HasPrefix(f, "deadlock") {
				deadlocks++
				break
			}
		}
		_ = enc.Encode(h)
	}
	fmt.Printf("{\"schedules_enumerated\": %d, \"executed\": %d, \"drift\": %d, \"prediction_mismatch\": %d, \"flagged\": %d, \"hook_calls\": %d}\n", total, executed, drift, predbad, flagged, hookCalls)
}

// ---- free running ------------------------------------------------------------------

func randMutator(rng *rand.Rand, vals int) Call {
	switch rng.Intn(9) {
	case 0, 1:
		n := 1 + rng.Intn(2)
		xs := []any{}
		for i := 0; i < n; i++ {
			xs = append(xs, fmt.Sprintf("v%d", rng.Intn(vals)))
		}
		return Call{"op": "Push", "xs": xs}
	case 2, 3:
		return Call{"op": "Pop"}
	case 4:
		return Call{"op": "Insert", "x": fmt.Sprintf("v%d", rng.Intn(vals)), "i": rng.Intn(4)}
	case 5:
		return Call{"op": "Remove", "i": rng.Intn(3)}
	case 6:
		return Call{"op": "Replace", "x": fmt.Sprintf("v%d", rng.Intn(vals)), "i": rng.Intn(3)}
	case 7:
		return Call{"op": "Swap", "i": rng.Intn(3), "j": rng.Intn(3)}
	}
	if rng.Intn(4) == 0 {
		return Call{"op": "Reset"}
	}
	return Call{"op": "Reverse"}
}

func cmdStress(args []string) {
	fs := flag.NewFlagSet("stress", flag.ExitOnError)
	out := fs.String("out", "", "histories ndjson")
	rounds := fs.Int("rounds", 300, "rounds")
	seed := fs.Int64("seed", 1, "seed")
	maxG := fs.Int("g", 4, "max goroutines")
	maxOps := fs.Int("ops", 3, "max calls per goroutine")
	_ = fs.Parse(args)
	of, err := os.Create(*out)
	if err != nil {
		die(2, "%v", err)
	}
	defer of.Close()
	w := bufio.NewWriterSize(of, 1<<20)
	defer w.Flush()
	enc := json.NewEncoder(w)
	rng := rand.New(rand.NewSource(*seed))
	flagged, deadlocks, done := 0, 0, 0
	for r := 0; r < *rounds && deadlocks < 3; r++ {
		done++
		init := AState{Live: true, Kind: "AND", Cap: []int{0, 0, 2, 3, 4}[rng.Intn(5)], Mtx: true, Fifo: rng.Intn(2) == 0, Err: "none", VPol: "none"}
		n := rng.Intn(4)
		if init.Cap > 0 && n > init.Cap {
			n = init.Cap
		}
		for i := 0; i < n; i++ {
			init.E = append(init.E, fmt.Sprintf("i%d", i))
		}
		init = init.Canon()
		ij, _ := json.Marshal(init)
		o := Build(init)
		o.concurrent = true
		G := 2 + rng.Intn(*maxG-1)
		progs := make([][]Call, G)
		for g := range progs {
			k := 1 + rng.Intn(*maxOps)
			for i := 0; i < k; i++ {
				progs[g] = append(progs[g], normCall(randMutator(rng, 50)))
			}
		}
		h := History{Init: ij, Hist: make([][]HEvent, G), Flags: []string{}, Mode: "stress"}
		var wg sync.WaitGroup
		// spin-aligned start: every goroutine is already running (and spinning) when the flag flips,
		// so that the first calls overlap within tens of nanoseconds instead of a channel wake-up apart
		var ready, goFlag int32
		for g := 0; g < G; g++ {
			g := g
			wg.Add(1)
			go func() {
				defer wg.Done()
				atomic.AddInt32(&ready, 1)
				for atomic.LoadInt32(&goFlag) == 0 {
				}
				for _, c := range progs[g] {
					h.Hist[g] = append(h.Hist[g], HEvent{C: c, Ret: applyInner(o, nil, c)})
				}
			}()
		}
		for atomic.LoadInt32(&ready) < int32(G) {
			runtime.Gosched()
		}
		atomic.StoreInt32(&goFlag, 1)
		donech := make(chan struct{})
		go func() { wg.Wait(); close(donech) }()
		select {
		case <-donech:
		case <-time.After(5 * time.Second):
			h.Flags = append(h.Flags, "deadlock: goroutines did not finish within 5s")
			for g := range h.Hist {
				if h.Hist[g] == nil {
					h.Hist[g] = []HEvent{}
				}
			}
			h.Final = []string{}
			_ = enc.Encode(h)
			flagged++
			deadlocks++
			continue
		}
		for g := range h.Hist {
			for _, ev := range h.Hist[g] {
				if len(ev.Ret) > 0 && ev.Ret[0] == "PANIC" {
					h.Flags = append(h.Flags, "panic: "+ev.Ret[1])
				}
				for _, x := range ev.Ret {
					if len(x) > 0 && x[0] == '?' {
						h.Flags = append(h.Flags, "a call returned a non-user value: "+x)
					}
				}
			}
		}
		var fl []string
		h.Final, fl = finalElems(o.S)
		h.Flags = append(h.Flags, fl...)
		if len(h.Flags) > 0 {
			flagged++
		}
		_ = enc.Encode(h)
	}
	fmt.Printf("{\"rounds\": %d, \"flagged\": %d}\n", done, flagged)
}

// ---------------------------------------------------------------- watch: what an unlocked reader sees DURING one mutator

// WatchRec is one sequential run of mutators on a mutex-enabled stack with sampler goroutines reading
// Len() all the time -- exactly what the unlocked emptiness pre-checks of the public wrappers do.  seen[i]
// holds the distinct lengths sampled while call i was executing.  Watch.tla judges it: every sampled
// length lies between the specified lengths before and after that call (a critical section never shows
// the stack shorter or longer than both its ends), and returns / final content follow ListOps!Step.
type WatchRec struct {
	Init  json.RawMessage `json:"init"`
	Calls []Call          `json:"calls"`
	Rets  [][]string      `json:"rets"`
	Seen  [][]int         `json:"seen"`
	Final []string        `json:"final"`
	Flags []string        `json:"flags"`
}

func cmdWatch(args []string) {
	fs := flag.NewFlagSet("watch", flag.ExitOnError)
	out := fs.String("out", "", "records ndjson")
	rounds := fs.Int("rounds", 5000, "rounds")
	seed := fs.Int64("seed", 1, "seed")
	maxOps := fs.Int("ops", 6, "max calls per round")
	nSamp := fs.Int("samplers", 3, "sampler goroutines")
	_ = fs.Parse(args)
	of, err := os.Create(*out)
	if err != nil {
		die(2, "%v", err)
	}
	defer of.Close()
	w := bufio.NewWriterSize(of, 1<<20)
	defer w.Flush()
	enc := json.NewEncoder(w)
	rng := rand.New(rand.NewSource(*seed))
	samples, flagged := 0, 0
	const maxLen = 64
	for r := 0; r < *rounds; r++ {
		init := AState{Live: true, Kind: "AND", Cap: []int{0, 0, 4, 6}[rng.Intn(4)], Mtx: true, Fifo: rng.Intn(2) == 0, Err: "none", VPol: "none"}
		n := rng.Intn(5)
		if init.Cap > 0 && n > init.Cap {
			n = init.Cap
		}
		for i := 0; i < n; i++ {
			init.E = append(init.E, fmt.Sprintf("i%d", i))
		}
		init = init.Canon()
		ij, _ := json.Marshal(init)
		k := 1 + rng.Intn(*maxOps)
		rec := WatchRec{Init: ij, Flags: []string{}}
		for i := 0; i < k; i++ {
			c := randMutator(rng, 50)
			if rng.Intn(3) == 0 {
				c = Call{"op": "Pop"} // the call whose critical section rewrites the header most
			}
			rec.Calls = append(rec.Calls, normCall(c))
		}
		cnt := watchRun(init, &rec, *nSamp)
		samples += cnt
		if len(rec.Flags) > 0 {
			flagged++
		}
		_ = enc.Encode(rec)
	}
	fmt.Printf("{\"rounds\": %d, \"samples\": %d, \"flagged\": %d}\n", *rounds, samples, flagged)
}

// watchRun executes rec.Calls one after the other on a fresh object built from init while nSamp goroutines
// sample Len(); it fills Rets, Seen, Final and Flags and returns the number of attributed samples.
func watchRun(init AState, rec *WatchRec, nSamp int) int {
	const maxLen = 64
	k := len(rec.Calls)
	samples := 0
	rec.Rets, rec.Seen, rec.Flags = nil, nil, []string{}
	{
		o := Build(init)
		o.concurrent = true
		var phase int32 = -1
		var stop, started int32
		seen := make([][][maxLen + 1]bool, nSamp)
		counts := make([]int, nSamp)
		var wg sync.WaitGroup
		for sidx := 0; sidx < nSamp; sidx++ {
			sidx := sidx
			seen[sidx] = make([][maxLen + 1]bool, k)
			wg.Add(1)
			go func() {
				defer wg.Done()
				atomic.AddInt32(&started, 1)
				for atomic.LoadInt32(&stop) == 0 {
					p1 := atomic.LoadInt32(&phase)
					l := o.S.Len()
					p2 := atomic.LoadInt32(&phase)
					if p1 == p2 && p1 >= 0 && int(p1) < k {
						if l < 0 || l > maxLen {
							l = maxLen
						}
						seen[sidx][p1][l] = true
						counts[sidx]++
					}
				}
			}()
		}
		for atomic.LoadInt32(&started) < int32(nSamp) {
			runtime.Gosched()
		}
		for i, c := range rec.Calls {
			atomic.StoreInt32(&phase, int32(i))
			rec.Rets = append(rec.Rets, applyInner(o, nil, c))
		}
		atomic.StoreInt32(&phase, int32(k))
		atomic.StoreInt32(&stop, 1)
		wg.Wait()
		for i := 0; i < k; i++ {
			ls := []int{}
			for l := 0; l <= maxLen; l++ {
				for sidx := range seen {
					if seen[sidx][i][l] {
						ls = append(ls, l)
						break
					}
				}
			}
			rec.Seen = append(rec.Seen, ls)
		}
		for _, cnt := range counts {
			samples += cnt
		}
		for _, ret := range rec.Rets {
			if len(ret) > 0 && ret[0] == "PANIC" {
				rec.Flags = append(rec.Flags, "panic: "+ret[1])
			}
		}
		var fl []string
		rec.Final, fl = finalElems(o.S)
		rec.Flags = append(rec.Flags, fl...)
	}
	return samples
}

func replayWatch(b []byte) {
	var rec struct {
		Rec   WatchRec   `json:"record"`
		Lens  []int      `json:"lens"`
		Rets  [][]string `json:"rets"`
		Final []string   `json:"final"`
	}
	if err := json.Unmarshal(b, &rec); err != nil {
		die(2, "replay file: %v", err)
	}
	var init AState
	if err := json.Unmarshal(rec.Rec.Init, &init); err != nil {
		die(2, "replay file init: %v", err)
	}
	for attempt := 0; attempt < 400; attempt++ {
		r := WatchRec{Init: rec.Rec.Init, Calls: rec.Rec.Calls}
		watchRun(init, &r, 3)
		j1, _ := json.Marshal([]any{r.Rets, r.Final})
		j2, _ := json.Marshal([]any{rec.Rets, rec.Final})
		if string(j1) != string(j2) || len(r.Flags) > 0 {
			fmt.Printf("DISAGREES kind=watch (returns / final content differ from the specified ones)\n  specified %s\n  observed  %s flags=%v\n", j2, j1, r.Flags)
			os.Exit(1)
		}
		for i, ls := range r.Seen {
			lo, hi := rec.Lens[i], rec.Lens[i+1]
			if lo > hi {
				lo, hi = hi, lo
			}
			for _, l := range ls {
				if l < lo || l > hi {
					fmt.Printf("DISAGREES kind=watch (attempt %d: during call %d %v an unlocked reader saw length %d; specified length before %d, after %d)\n", attempt+1, i+1, r.Calls[i], l, rec.Lens[i], rec.Lens[i+1])
					os.Exit(1)
				}
			}
		}
	}
	fmt.Printf("AGREES (400 attempts: every sampled length between the specified ends)\n")
}

func replaySched(b []byte) {
	var rec struct {
		Sched SchedLine `json:"schedule"`
		Hist  History   `json:"history"`
	}
	if err := json.Unmarshal(b, &rec); err != nil {
		die(2, "replay file: %v", err)
	}
	h := runGated(&rec.Sched)
	j1, _ := json.Marshal([]any{h.Hist, h.Final, h.Flags})
	j2, _ := json.Marshal([]any{rec.Hist.Hist, rec.Hist.Final, rec.Hist.Flags})
	if string(j1) == string(j2) {
		fmt.Printf("DISAGREES kind=sched (the schedule reproduces the recorded history)\n  flags=%v final=%v\n", h.Flags, h.Final)
		os.Exit(1)
	}
	fmt.Printf("AGREES (the recorded history did not reproduce)\n  recorded %s\n  observed %s\n", j2, j1)
}

// replayFatal re-runs a free-running driver (stress / watch) in a child process: a fatal error of the Go runtime raised from
// inside the package's lock handling ("sync: unlock of unlocked mutex", "all goroutines are asleep") cannot be recovered,
// it can only be observed from outside.
func replayFatal(b []byte) {
	var rec struct {
		Cmd []string `json:"cmd"`
	}
	if err := json.Unmarshal(b, &rec); err != nil || len(rec.Cmd) == 0 {
		die(2, "replay file: %v", err)
	}
	tmp, _ := os.CreateTemp("", "fatal-replay-*.ndjson")
	tmp.Close()
	defer os.Remove(tmp.Name())
	for attempt := 0; attempt < 3; attempt++ {
		args := append(append([]string{}, rec.Cmd...), "-out", tmp.Name())
		out, err := exec.Command(os.Args[0], args...).CombinedOutput()
		if err != nil && strings.Contains(string(out), "fatal error:") && strings.Contains(string(out), "go-stackage.") {
			i := strings.Index(string(out), "fatal error:")
			end := i + 300
			if end > len(out) {
				end = len(out)
			}
			fmt.Printf("DISAGREES kind=fatal (the driver dies with a fatal runtime error raised inside the package)\n  %s\n", strings.ReplaceAll(string(out[i:end]), "\n", " | "))
			os.Exit(1)
		}
	}
	fmt.Println("AGREES (three runs of the driver ended normally)")
}

// replayFatalSched runs ONE schedule in a child process (a fatal runtime error cannot be recovered in-process)
func replayFatalSched(b []byte) {
	var rec struct {
		Sched json.RawMessage `json:"schedule"`
	}
	if err := json.Unmarshal(b, &rec); err != nil || len(rec.Sched) == 0 {
		die(2, "replay file: %v", err)
	}
	sf, _ := os.CreateTemp("", "fatal-sched-*.ndjson")
	_, _ = sf.Write(append(append([]byte{}, rec.Sched...), '\n'))
	sf.Close()
	defer os.Remove(sf.Name())
	of, _ := os.CreateTemp("", "fatal-hist-*.ndjson")
	of.Close()
	defer os.Remove(of.Name())
	out, err := exec.Command(os.Args[0], "gated", "-sched", sf.Name(), "-out", of.Name()).CombinedOutput()
	if err != nil && strings.Contains(string(out), "fatal error:") && strings.Contains(string(out), "go-stackage.") {
		i := strings.Index(string(out), "fatal error:")
		end := i + 300
		if end > len(out) {
			end = len(out)
		}
		fmt.Printf("DISAGREES kind=fatalsched (forcing this schedule kills the process with a fatal runtime error raised inside the package)\n  %s\n", strings.ReplaceAll(string(out[i:end]), "\n", " | "))
		os.Exit(1)
	}
	fmt.Println("AGREES (the schedule ran to its end)")
}

func init() {
	replayKinds["fatalsched"] = replayFatalSched
	replayKinds["fatal"] = replayFatal
	commands["gated"] = cmdGated
	commands["stress"] = cmdStress
	commands["watch"] = cmdWatch
	replayKinds["sched"] = replaySched
	replayKinds["watch"] = replayWatch
}
